/-
  C16 — property-level theorems (statements; proofs are `exact`s to Rbgp/Accept/Proofs*.lean).
-/
import Rbgp.Accept.Proofs
import Rbgp.Accept.ProofsNet
import Rbgp.Accept.ProofsNeg
import Rbgp.Accept.ProofsCfg
import Rbgp.Accept.ProofsHist
import Rbgp.Accept.ProofsSim
import Rbgp.Accept.ProofsLoad
import Rbgp.Accept.Codec
namespace Rbgp.Accept.Props
open Rbgp.Accept Rbgp.Accept.Proofs Rbgp.Accept.ProofsNet Rbgp.Accept.ProofsNeg Rbgp.Accept.ProofsCfg
open Rbgp.Accept.ProofsHist Rbgp.Accept.ProofsSim

/-- **contains_iff_cover.**  For a well-formed prefix (same address family, mask within the address
    length, octets < 256) `IpNet::contains` does not panic and answers exactly "the first `mask`
    bits of the address equal those of the prefix" — whatever host bits the configured prefix has. -/
theorem contains_iff_cover (n : Net) (a : Ip) (hlen : n.bytes.length = a.bytes.length)
    (hm : n.mask ≤ 8 * n.bytes.length) (hn : bytesOk n.bytes) (ha : bytesOk a.bytes) :
    n.contains a = .ok (Spec.covers n a) := by
  rw [covers_eq]
  simp only [Net.contains, hlen, if_true, decide_true, Bool.true_and]
  exact containsF_cover n.bytes a.bytes n.mask hlen hm hn ha

/-- other address family: never contained, never a panic -/
theorem contains_other_family (n : Net) (a : Ip) (hlen : n.bytes.length ≠ a.bytes.length) :
    n.contains a = .ok false ∧ Spec.covers n a = false := by
  simp [Net.contains, Spec.covers, hlen]

/-- out-of-range mask: the outcome is explicit (here: a panic, as in the Rust code) -/
example : (Net.contains ⟨[10, 0, 0, 0], 40⟩ ⟨[10, 0, 0, 0]⟩) = .panic := by decide
example : (Net.contains ⟨[10, 0, 0, 0], 40⟩ ⟨[11, 0, 0, 0]⟩) = .ok false := by decide
/-- non-vacuity: host bits in the partial octet of the configured prefix do not matter -/
example : (Net.contains ⟨[10, 0, 1, 0], 23⟩ ⟨[10, 0, 1, 5]⟩) = .ok true := by decide

/-- **negotiate_mirror.**  The two ends compute the same family set, the same extended-message /
    extended-next-hop / 4-octet-AS outcome, and add-path directions with rx/tx swapped. -/
theorem negotiate_mirror (l r : List Cap) :
    negotiate r l =
      { fams := (negotiate l r).fams.map swapFs, extMsg := (negotiate l r).extMsg
        enh := (negotiate l r).enh, as4 := (negotiate l r).as4 } :=
  Proofs.negotiate_mirror l r

/-- **feature_iff_both.**  A family is in force iff both OPENs carry it; for a family in force an
    add-path direction is in force iff both advertised it (the last tuple a side lists for the family
    is its advertisement) and extended next hop is in force iff both list an RFC 8950 tuple for THAT
    family; extended message / 4-octet AS iff both; the encoder puts IPv4 unicast into MP_REACH /
    MP_UNREACH iff extended next hop is in force for IPv4 unicast itself. -/
theorem feature_iff_both (l r : List Cap) :
    (∀ f, (∃ s ∈ (negotiate l r).fams, s.fam = f) ↔ (Cap.mp f ∈ l ∧ Cap.mp f ∈ r)) ∧
    (∀ f s, (negotiate l r).state f = some s →
        s.rx = (bit0 (lastMode f (addPathTuples l)) && bit1 (lastMode f (addPathTuples r))) ∧
        s.tx = (bit1 (lastMode f (addPathTuples l)) && bit0 (lastMode f (addPathTuples r))) ∧
        s.enh = (enhAdv f l && enhAdv f r)) ∧
    ((negotiate l r).extMsg = true ↔ (Cap.extMsg ∈ l ∧ Cap.extMsg ∈ r)) ∧
    ((negotiate l r).as4 = true ↔ ((∃ n, Cap.as4 n ∈ l) ∧ (∃ n, Cap.as4 n ∈ r))) ∧
    ((negotiate l r).enh = (match (negotiate l r).state IPV4 with | some s => s.enh | none => false)) :=
  ⟨family_iff_both l r,
   fun f s h => ⟨(addpath_iff_both l r f s h).1, (addpath_iff_both l r f s h).2, Proofs.enh_iff_both l r f s h⟩,
   extmsg_iff_both l r, as4_iff_both l r, enh_encoding l r⟩

/-- the reviewer's case: extended next hop for VPNv4 only, on both sides — in force for VPNv4, not for
    IPv4 unicast, and IPv4 unicast keeps its classic encoding -/
example : negotiate [.mp 65537, .mp 65664, .enh [(65664, 2)]] [.mp 65537, .mp 65664, .enh [(65664, 2)]] =
    { fams := [⟨65537, false, false, false⟩, ⟨65664, false, false, true⟩], extMsg := false, enh := false, as4 := false } := by
  decide

/-- what "the last tuple wins" means for a side that lists a family once or consistently -/
theorem advertised_mode_unanimous (f : Family) (m : Nat) (t : List (Family × Nat))
    (hne : ∃ x ∈ t, x.1 = f) (hall : ∀ x ∈ t, x.1 = f → x.2 = m) : lastMode f t = m :=
  lastMode_unanimous f m t hne hall

/-- **sendmax_agrees_with_codec (S26).**  The effective send-max handed to the session has an entry
    for a family exactly when a send-max is configured for it and the negotiated codec encodes path
    identifiers for it in the send direction. -/
theorem sendmax_agrees_with_codec (sm : List (Family × Nat)) (l r : List Cap) (f : Family) (n : Nat) :
    (f, n) ∈ effectiveMax sm l r ↔ (Spec.lastOf sm f = some n ∧ (negotiate l r).tx f = true) :=
  mem_effectiveMax sm l r f n

/-- the S26 witness: conflicting duplicate tuples from the remote side -/
example : effectiveMax [(65537, 4)] [.mp 65537, .addPath [(65537, 3)]] [.mp 65537, .addPath [(65537, 1), (65537, 0)]] = [] := by
  decide
example : effectiveMax [(65537, 4)] [.mp 65537, .addPath [(65537, 3)]] [.mp 65537, .addPath [(65537, 1)]] = [(65537, 4)] := by
  decide

/-- **gr_negotiation_symmetric.**  Both ends agree on whether GR is in force, on the set of GR
    families and on the RFC 8538 N-bit outcome. -/
theorem gr_negotiation_symmetric (l r : List Cap) :
    ((negotiateGr l r).isSome = (negotiateGr r l).isSome) ∧
    (∀ f, f ∈ Spec.grFams (negotiateGr l r) ↔ f ∈ Spec.grFams (negotiateGr r l)) ∧
    ((negotiateGr l r).map (·.notif) = (negotiateGr r l).map (·.notif)) :=
  gr_symmetric l r


/-- **llgr_symmetric_full.**  Both ends put the same LLGR families into force, whatever the two
    capability lists look like (duplicates included: a family listed twice counts by its first
    tuple on either side — the F16d repair of `negotiate_llgr`). -/
theorem llgr_symmetric_full (l r : List Cap) (f : Family) :
    f ∈ Spec.llgrFams (negotiateLlgr l r) ↔ f ∈ Spec.llgrFams (negotiateLlgr r l) :=
  ⟨llgr_sym l r f, llgr_sym r l f⟩

/-- the former F16d witness -/
example : negotiateLlgr [.llgr [(65537, 0, 0), (65537, 0, 5)]] [.llgr [(65537, 0, 0)]] = none ∧
    negotiateLlgr [.llgr [(65537, 0, 0)]] [.llgr [(65537, 0, 0), (65537, 0, 5)]] = none := by decide
example : negotiateLlgr [.llgr [(65537, 0, 0), (131073, 0, 5)]] [.llgr [(131073, 0, 0), (65537, 0, 7)]] =
    some [(65537, 7), (131073, 5)] := by decide

/-- what is in force: the family is listed by both sides and one of the two first-listed stale
    times is non-zero -/
theorem llgr_in_force_iff (l r : List Cap) (f : Family) :
    f ∈ Spec.llgrFams (negotiateLlgr l r) ↔
      ∃ lf pf, firstLlgr l = some lf ∧ firstLlgr r = some pf ∧
        ∃ e p, lf.find? (fun x => x.1 = f) = some e ∧ pf.find? (fun x => x.1 = f) = some p ∧
          (if p.2.2 > 0 then p.2.2 else e.2.2) ≠ 0 :=
  mem_llgrFams l r f

/-! ## configured or inherited parameters, role -/

/-- **params_inherited.**  What `add_peer` stores for a configured neighbour — expected AS, hold
    time, advertised capabilities, prefix limits, send-max, export policy, RS / RR-client flags and
    the derived role — is the neighbour's own setting where it has one and its peer group's
    otherwise (`Spec.wantStatic`); `g?` is the group `apply_peer_group` was given, if any. -/
theorem params_inherited (asn rid : Nat) (confed : Option (Nat × List Nat)) (hc : confedIdOk confed)
    (p : Params) (hd : p.dyn = false) (g? : Option Group) :
    let resolved := match g? with | some g => applyPeerGroup p g | none => p
    let cfg := build (confedAdjust asn confed resolved) asn
    ∀ e ∈ Spec.cfgOk ⟨asn, rid, confed⟩ (Spec.wantStatic p g?) p.addr.isV6 cfg (peerRole cfg confed), e.1 = true := by
  cases g? with
  | none =>
    simp only
    have := cfgOk_build asn rid confed p hc
    rw [want_noGroup p hd] at this; exact this
  | some g =>
    simp only
    have := cfgOk_build asn rid confed (applyPeerGroup p g) hc
    rw [want_applyPeerGroup p g hd] at this; exact this

/-- a dynamic neighbour takes every parameter from the group whose prefix admitted it -/
theorem params_inherited_dynamic (asn rid : Nat) (confed : Option (Nat × List Nat)) (hc : confedIdOk confed)
    (g : Group) (a : Ip) :
    let cfg := build (confedAdjust asn confed (paramsOfGroup g a)) asn
    ∀ e ∈ Spec.cfgOk ⟨asn, rid, confed⟩ (Spec.wantDynamic g) a.isV6 cfg (peerRole cfg confed), e.1 = true := by
  have := cfgOk_build asn rid confed (paramsOfGroup g a) hc
  rw [want_dynamic] at this; exact this

/-- **role_derivation_spec.**  RS client if so configured; otherwise iBGP (RR client if flagged)
    iff the configured expected AS is the AS this speaker presents to the neighbour, confederation
    eBGP iff it is a member AS, eBGP otherwise (no requirement when no expected AS is configured). -/
theorem role_derivation_spec (asn rid : Nat) (confed : Option (Nat × List Nat)) (hc : confedIdOk confed) (p : Params) :
    Spec.roleOk ⟨asn, rid, confed⟩ (wantOfParams p) (peerRole (build (confedAdjust asn confed p) asn) confed) = true :=
  roleOk_build asn rid confed p hc

/-- F16b witness: inside a confederation whose member list omits the local AS, a neighbour in our
    own AS is internal -/
example : peerRole (build (confedAdjust 65001 (some (65000, [65002]))
    { addr := ⟨[127, 0, 0, 5]⟩, expected := 65001, localAsn := 0, hold := 180, passive := false, rs := false
      rrClient := false, cluster := none, adminDown := false, dyn := false, fams := [], sm := [], pl := []
      gr := none, llgr := none, pol := none }) 65001) (some (65000, [65002])) = .ibgp := by decide

/-! ## histories -/

/-- states reachable from a configuration by connect / disconnect / enable / disable / delete /
    shutdown / reset in any order and direction -/
inductive Reach (g : GlobalCfg) (groups : List Group) (peers : List PeerCase) : St → Prop where
  | init : Reach g groups peers (setupPeers (initSt g groups) peers).1
  | step {st st' : St} {op : Op} {r : Res} {b : Bool} :
      Reach g groups peers st → step st op = .ok (st', r, b) → Reach g groups peers st'

theorem reach_inv (g : GlobalCfg) (groups : List Group) (peers : List PeerCase)
    (hd : ∀ pc ∈ peers, pc.params.dyn = false) (st : St) (h : Reach g groups peers st) : Inv st := by
  induction h with
  | init => exact (setup_inv peers _ (inv_init g groups) rfl (by simp [initSt]) hd).1
  | step _ hs ih => exact inv_step _ _ ih _ _ _ hs

/-- **dynamic_peer_gc.**  In every reachable state a dynamic neighbour that is in the table has a
    connection that has not ended: its state disappears when its last connection ends (and is
    never left behind). -/
theorem dynamic_peer_gc (g : GlobalCfg) (groups : List Group) (peers : List PeerCase)
    (hd : ∀ pc ∈ peers, pc.params.dyn = false) (st : St) (h : Reach g groups peers st) :
    ∀ e ∈ st.peers, e.2.cfg.dyn = true → ∃ s ∈ st.live, s.addr = e.1 := by
  intro e he hdy
  have hi := reach_inv g groups peers hd st h
  obtain ⟨s, hs, hc⟩ := hi.dyn e he hdy
  exact ⟨s, hs, hi.core.owner s hs e he hc⟩

/-- the same, read at the moment the last connection ends -/
theorem dynamic_peer_removed_with_last_connection (g : GlobalCfg) (groups : List Group) (peers : List PeerCase)
    (hd : ∀ pc ∈ peers, pc.params.dyn = false) (st : St) (h : Reach g groups peers st) (sid : Nat) (a : Ip)
    (hnone : ∀ s ∈ (disconnect st sid none).1.live, s.addr ≠ a) :
    ∀ p, plookup a (disconnect st sid none).1.peers = some p → p.cfg.dyn = false := by
  intro p hp
  have h' : Reach g groups peers (disconnect st sid none).1 := Reach.step (op := .disc sid) h rfl
  cases hdy : p.cfg.dyn with
  | false => rfl
  | true =>
    obtain ⟨s, hs, hsa⟩ := dynamic_peer_gc g groups peers hd _ h' (a, p) (plookup_mem _ _ _ hp) hdy
    exact absurd hsa (hnone s hs)

/-- states after a list of operations (for concrete witnesses) -/
def stateAfter (st : St) : List Op → Option St
  | [] => some st
  | op :: rest => match step st op with
      | .ok (st', _, _) => stateAfter st' rest
      | .panic => none

theorem reach_stateAfter (g : GlobalCfg) (groups : List Group) (peers : List PeerCase) :
    ∀ (ops : List Op) (st st' : St), Reach g groups peers st → stateAfter st ops = some st' → Reach g groups peers st'
  | [], st, st', h, e => by simp only [stateAfter, Option.some.injEq] at e; rw [← e]; exact h
  | op :: rest, st, st', h, e => by
    simp only [stateAfter] at e
    cases hs : step st op with
    | panic => rw [hs] at e; cases e
    | ok t =>
      obtain ⟨st1, r, b⟩ := t
      rw [hs] at e
      exact reach_stateAfter g groups peers rest st1 st' (Reach.step h hs) e

def gcGroup : Group :=
  { name := "g1", asn := 65002, localAsn := 0, hold := none, passive := false, rs := false, rrClient := false
    cluster := none, fams := [], sm := [], gr := none, llgr := none, nets := [⟨[127, 0, 2, 0], 24⟩] }
def gcAddr : Ip := ⟨[127, 0, 2, 9]⟩

/-- a dynamic neighbour is created by its first connection and collected with its last one -/
example : ((stateAfter (initSt ⟨65001, 1, none⟩ [gcGroup]) [.connect gcAddr .passive]).map fun st => st.peers.length) = some 1 := by
  decide
example : ((stateAfter (initSt ⟨65001, 1, none⟩ [gcGroup]) [.connect gcAddr .passive, .connect gcAddr .active, .disc 0]).map
    fun st => st.peers.length) = some 1 := by decide
example : ((stateAfter (initSt ⟨65001, 1, none⟩ [gcGroup]) [.connect gcAddr .passive, .connect gcAddr .active, .disc 0, .discx 1 65002 90]).map
    fun st => st.peers.length) = some 0 := by decide

/-- the converse one would like: as long as a connection of a dynamic address exists and has not
    been told to close, the neighbour state exists -/
def dynamic_state_while_connected : Prop :=
  ∀ (g : GlobalCfg) (groups : List Group) (peers : List PeerCase) (st : St), Reach g groups peers st →
    ∀ s ∈ st.live, s.doom = none → (plookup s.addr st.peers).isSome = true

/-- it fails (F16c, third face): after `connect P; delete; connect A; disc 0` the task of the deleted
    neighbour's connection has removed the re-created neighbour under its live connection -/
theorem dynamic_state_while_connected_fails : ¬ dynamic_state_while_connected := by
  intro h
  have hex : ∃ st, stateAfter (initSt ⟨65001, 1, none⟩ [gcGroup])
      [.connect gcAddr .passive, .delete gcAddr, .connect gcAddr .active, .disc 0] = some st ∧
      ∃ s ∈ st.live, s.doom = none ∧ (plookup s.addr st.peers).isSome = false := by decide
  obtain ⟨st, hst, s, hs, hd, hn⟩ := hex
  have hr : Reach ⟨65001, 1, none⟩ [gcGroup] [] st :=
    reach_stateAfter _ _ _ _ _ st Reach.init hst
  have := h _ _ _ st hr s hs hd
  rw [hn] at this; cases this

/-- **accept_iff.**  `accept_connection` turns a connection into a session exactly when the remote
    address is a neighbour in the table that is administratively up and whose close-channel slot
    for that direction is free, or is not in the table and lies inside a dynamic prefix of some
    group (prefix containment = `Spec.covers`, by `contains_iff_cover`). -/
theorem accept_iff (st : St) (a : Ip) (role : Role) (hwf : WFGroups st.groups) (ha : bytesOk a.bytes) :
    (∃ st' r b, acceptConnection st a role = .ok (st', r, b) ∧ Spec.isAccept r = true) ↔
    ((∃ p, plookup a st.peers = some p ∧ p.adminDown = false ∧ (st.ctx p.ctx).get role = none) ∨
     (plookup a st.peers = none ∧ ∃ g ∈ st.groups, ∃ n ∈ g.nets, Spec.covers n a = true)) := by
  have hcov : (∃ g ∈ st.groups, ∃ n ∈ g.nets, Spec.covers n a = true) ↔ Spec.coveringGroups st.groups a ≠ [] := by
    constructor
    · rintro ⟨g, hg, n, hn, hc⟩ hnil
      have : g ∈ Spec.coveringGroups st.groups a := by
        simp only [Spec.coveringGroups, List.mem_filter, List.any_eq_true]
        exact ⟨hg, n, hn, hc⟩
      rw [hnil] at this; simp at this
    · intro hne
      cases hh : Spec.coveringGroups st.groups a with
      | nil => exact absurd hh hne
      | cons g t =>
        have : g ∈ Spec.coveringGroups st.groups a := by rw [hh]; simp
        simp only [Spec.coveringGroups, List.mem_filter, List.any_eq_true] at this
        obtain ⟨hg, n, hn, hc⟩ := this
        exact ⟨g, hg, n, hn, hc⟩
  unfold acceptConnection
  cases hl : plookup a st.peers with
  | some p =>
    simp only [reduceCtorEq, false_and, or_false, Option.some.injEq, exists_eq_left']
    by_cases had : p.adminDown = true
    · simp [had, Spec.isAccept]
    · have had' : p.adminDown = false := by cases h : p.adminDown <;> simp_all
      by_cases hs : ((st.ctx p.ctx).get role).isSome = true
      · have : (st.ctx p.ctx).get role ≠ none := by cases h : (st.ctx p.ctx).get role <;> simp_all
        simp [had', hs, Spec.isAccept, this]
      · have hn : (st.ctx p.ctx).get role = none := by cases h : (st.ctx p.ctx).get role <;> simp_all
        simp only [had', Bool.false_eq_true, if_false, hs, hn, and_self, iff_true]
        exact ⟨_, _, _, rfl, by rw [openSession_res]; rfl⟩
  | none =>
    simp only [reduceCtorEq, false_and, exists_false, false_or, true_and, bind, Bind.bind,
      matching_eq st.groups a hwf ha, hcov]
    match hc : Spec.coveringGroups st.groups a with
    | [] =>
      simp only [pure, Out.ok.injEq, Prod.mk.injEq, ne_eq, not_true_eq_false, iff_false, not_exists, not_and]
      rintro st' r b ⟨_, rfl, _⟩; simp [Spec.isAccept]
    | [g] =>
      simp only [ne_eq, reduceCtorEq, not_false_eq_true, iff_true]
      obtain ⟨st', r, b, hr, _⟩ := accept_groups st a role hwf ha
      unfold acceptConnection at hr
      simp only [hl, bind, Bind.bind, matching_eq st.groups a hwf ha, hc] at hr
      cases h1 : addPeer st (paramsOfGroup g a) with
      | none => simp [h1] at hr
      | some st1 =>
        simp only [h1] at hr ⊢
        cases h2 : plookup a st1.peers with
        | none => simp [h2] at hr
        | some p => exact ⟨_, _, _, rfl, by rw [openSession_res]; rfl⟩
    | g1 :: g2 :: rest =>
      simp only [ne_eq, reduceCtorEq, not_false_eq_true, iff_true]
      exact ⟨st, _, true, rfl, rfl⟩

/-- an occupied slot is a connection of that neighbour and direction that has not ended -/
theorem slot_is_connection (st : St) (hi : Inv st) (a : Ip) (p : Peer) (role : Role) (sid : Nat)
    (hp : plookup a st.peers = some p) (hs : (st.ctx p.ctx).get role = some sid) :
    ∃ s ∈ st.live, s.addr = a ∧ s.role = role := by
  obtain ⟨s, hs1, _, hs3, hs4⟩ := hi.core.slotLive p.ctx role sid hs
  exact ⟨s, hs1, hi.core.owner s hs1 (a, p) (plookup_mem _ _ _ hp) hs3, hs4⟩

/-- the statement one would like: a configured neighbour is accepted iff it is up and has NO
    other connection in that direction -/
def accept_iff_full : Prop :=
  ∀ (g : GlobalCfg) (groups : List Group) (peers : List PeerCase) (st : St), Reach g groups peers st →
    ∀ (a : Ip) (role : Role) (p : Peer), plookup a st.peers = some p →
      ((∃ st' r b, acceptConnection st a role = .ok (st', r, b) ∧ Spec.isAccept r = true) ↔
        (p.adminDown = false ∧ ¬ ∃ s ∈ st.live, s.addr = a ∧ s.role = role))

/-- proved part: it holds whenever every unfinished connection of the neighbour and direction
    still sits in its slot (i.e. none has been told to close and not finished yet) -/
theorem accept_iff_partial (st : St) (hi : Inv st) (hwf : WFGroups st.groups) (a : Ip) (ha : bytesOk a.bytes)
    (role : Role) (p : Peer) (hp : plookup a st.peers = some p)
    (hslot : ∀ s ∈ st.live, s.addr = a → s.role = role → (st.ctx p.ctx).get role = some s.sid) :
    ((∃ st' r b, acceptConnection st a role = .ok (st', r, b) ∧ Spec.isAccept r = true) ↔
      (p.adminDown = false ∧ ¬ ∃ s ∈ st.live, s.addr = a ∧ s.role = role)) := by
  rw [accept_iff st a role hwf ha]
  simp only [hp, Option.some.injEq, exists_eq_left', reduceCtorEq, false_and, or_false]
  constructor
  · rintro ⟨h1, h2⟩
    refine ⟨h1, ?_⟩
    rintro ⟨s, hs, hsa, hsr⟩
    rw [hslot s hs hsa hsr] at h2; cases h2
  · rintro ⟨h1, h2⟩
    refine ⟨h1, ?_⟩
    cases hg : (st.ctx p.ctx).get role with
    | none => rfl
    | some sid => exact absurd (slot_is_connection st hi a p role sid hp hg) h2

/-- F16c: after `shutdown` the slot is free although the closing connection has not finished -/
def f16cPeer : PeerCase :=
  { params := { addr := ⟨[127, 0, 0, 5]⟩, expected := 0, localAsn := 0, hold := 180, passive := false, rs := false
                rrClient := false, cluster := none, adminDown := false, dyn := false, fams := [], sm := [], pl := []
                gr := none, llgr := none, pol := none }, group := none }
def f16cState : St :=
  match runOpsState (setupPeers (initSt ⟨65001, 1, none⟩ []) [f16cPeer]).1
      [.connect ⟨[127, 0, 0, 5]⟩ .passive, .shutdown ⟨[127, 0, 0, 5]⟩] with
  | some st => st
  | none => initSt ⟨65001, 1, none⟩ []
where
  runOpsState (st : St) : List Op → Option St
    | [] => some st
    | op :: rest => match step st op with
        | .ok (st', _, _) => runOpsState st' rest
        | .panic => none

theorem f16c_reachable : Reach ⟨65001, 1, none⟩ [] [f16cPeer] f16cState := by
  have h0 : Reach ⟨65001, 1, none⟩ [] [f16cPeer] (setupPeers (initSt ⟨65001, 1, none⟩ []) [f16cPeer]).1 := Reach.init
  have h1 := Reach.step (op := .connect ⟨[127, 0, 0, 5]⟩ .passive) h0 rfl
  exact Reach.step (op := .shutdown ⟨[127, 0, 0, 5]⟩) h1 rfl

theorem accept_iff_full_fails : ¬ accept_iff_full := by
  intro h
  have := (h ⟨65001, 1, none⟩ [] [f16cPeer] f16cState f16c_reachable ⟨[127, 0, 0, 5]⟩ .passive
    { cfg := build f16cPeer.params 65001, adminDown := false, ctx := 0 } (by decide)).mp
    ⟨_, _, _, rfl, by decide⟩
  exact this.2 (by decide)

/-! ## loading a configuration -/

/-- **loaded_prefixes_valid.**  Whatever prefix lengths a configuration gives, every dynamic-neighbour
    prefix the daemon holds after loading is a prefix (length within the address length) — the
    precondition of `contains_iff_cover`, which is therefore not an assumption on histories. -/
theorem loaded_prefixes_valid (groups : List Group) :
    ∀ g ∈ groups.map loadGroup, ∀ n ∈ g.nets, n.mask ≤ 8 * n.bytes.length := by
  intro g hg n hn
  obtain ⟨g0, _, rfl⟩ := List.mem_map.mp hg
  simp only [loadGroup, List.mem_filter] at hn
  simpa [Net.wf] using hn.2

/-- a prefix is admitted iff it is one and the group does not have it yet (first request of a list) -/
theorem first_prefix_admitted_iff (n : Net) (rest : List Net) :
    (netsAdded (n :: rest) []).head? = some (decide (n.mask ≤ 8 * n.bytes.length)) := by
  simp [netsAdded, Net.wf]

/-- **api_request_refused_iff.**  An AddPeer request is refused exactly when it names neither an
    expected AS nor a group, carries a send-max above 255, or a hold time of 1, 2 or above 65535 s. -/
theorem api_request_refused_iff (pc : PeerCase) :
    apiPre pc = none ↔
      pc.api = true ∧ ((pc.params.expected = 0 ∧ pc.group = none) ∨ (∃ e ∈ pc.params.sm, e.2 > 255) ∨
        ¬ (pc.params.hold = 0 ∨ (3 ≤ pc.params.hold ∧ pc.params.hold ≤ 65535))) := by
  unfold apiPre
  cases ha : pc.api with
  | false => simp
  | true =>
    simp only [Bool.not_true, Bool.false_eq_true, if_false, true_and]
    by_cases h1 : pc.params.expected = 0 ∧ pc.group = none
    · simp [h1]
    · have h1' : (decide (pc.params.expected = 0) && pc.group.isNone) = false := by
        cases hg : pc.group with
        | none => simp [hg] at h1 ⊢; exact h1
        | some _ => simp
      by_cases h2 : ∃ e ∈ pc.params.sm, e.2 > 255
      · have : (pc.params.sm.any fun e => decide (e.2 > 255)) = true := by
          simpa [List.any_eq_true] using h2
        simp [h1', this, h2]
      · have : (pc.params.sm.any fun e => decide (e.2 > 255)) = false := by
          rw [Bool.eq_false_iff]; intro h; exact h2 (by simpa [List.any_eq_true] using h)
        by_cases h3 : pc.params.hold = 0 ∨ (3 ≤ pc.params.hold ∧ pc.params.hold ≤ 65535)
        · have : apiHoldOk pc.params.hold = true := by simpa [apiHoldOk] using h3
          simp [h1', ‹(pc.params.sm.any fun e => decide (e.2 > 255)) = false›, this, h1, h2, h3]
        · have : apiHoldOk pc.params.hold = false := by
            rw [Bool.eq_false_iff]; intro h; exact h3 (by simpa [apiHoldOk] using h)
          simp [h1', ‹(pc.params.sm.any fun e => decide (e.2 > 255)) = false›, this, h1, h2, h3]

/-- what a request that is taken stands for: the default hold time for 0, no entry for a send-max of 0 -/
theorem api_request_reading (pc x : PeerCase) (h : apiPre pc = some x) (ha : pc.api = true) :
    x.params.hold = (if pc.params.hold = 0 then 180 else pc.params.hold) ∧
    x.params.sm = pc.params.sm.filter (fun e => e.2 > 0) ∧ x.group = pc.group ∧
    x.params.expected = pc.params.expected ∧ x.params.fams = pc.params.fams := by
  unfold apiPre at h
  simp only [ha, Bool.not_true, Bool.false_eq_true, if_false] at h
  split at h; · cases h
  split at h; · cases h
  split at h; · cases h
  simp only [Option.some.injEq] at h
  subst h
  simp [DEFAULT_HOLD_TIME]

/-! ## master theorem -/

def CaseWF : Case → Prop
  | .neg .. => True
  | .contains n a => bytesOk n.bytes ∧ bytesOk a.bytes
  | .hist g groups peers ops => ProofsLoad.CaseHistWF g groups peers ops

/-- operations of a case that can tear a connection down -/
def hasTearDown : Case → Bool
  | .hist _ _ _ ops => ops.any admOp
  | _ => false

/-- **check_run_ok.**  The C16 reference checker accepts every observation the model produces —
    for every pair of capability lists, every prefix / address, every configuration and every
    history.  The only thing it may report is one of the three faces of the open finding F16c
    (accepted next to a closing connection, static or dynamic; neighbour state removed under a live
    connection), and that only for a history containing a shutdown / reset / disable / delete. -/
theorem check_run_ok (c : Case) (hwf : CaseWF c) :
    Spec.check c (run c) = .ok ∨
    (∃ k cl, Spec.check c (run c) = .fail k cl ∧ cl ∈ hitClauses ∧ hasTearDown c = true) := by
  cases c with
  | neg l r sm => exact Or.inl (checkNeg_model l r sm)
  | contains n a =>
    left
    simp only [run, Spec.check]
    by_cases hlen : n.bytes.length = a.bytes.length
    · by_cases hm : n.mask ≤ 8 * n.bytes.length
      · rw [contains_iff_cover n a hlen hm hwf.1 hwf.2]
        simp [Spec.checkContains, Spec.maskInRange, hlen, hm]
      · have hmr : Spec.maskInRange n = false := by simp [Spec.maskInRange, hm]
        cases n.contains a <;> simp [Spec.checkContains, hmr, hlen]
    · rw [(contains_other_family n a hlen).1]
      simp [Spec.checkContains, hlen, (contains_other_family n a hlen).2]
  | hist g groups peers ops =>
    obtain ⟨h, hr⟩ := ProofsLoad.runHist_ok g groups peers ops hwf
    simp only [run, hr, Spec.check]
    exact ProofsLoad.checkHist_model g groups peers ops hwf h hr

/-- in particular: a history without shutdown / reset / disable / delete is accepted outright -/
theorem check_run_ok_without_teardown (c : Case) (hwf : CaseWF c) (hq : hasTearDown c = false) :
    Spec.check c (run c) = .ok := by
  rcases check_run_ok c hwf with h | ⟨_, _, _, _, h⟩
  · exact h
  · rw [hq] at h; cases h

/-- the drivers run the model and the oracle only on cases passing the run-time guard
    `Codec.wfCase`, and the guard implies the hypothesis of `check_run_ok` -/
theorem wfCase_sound (c : Case) (h : Codec.wfCase c = true) : CaseWF c := by
  have oct : ∀ l, Codec.octetsOk l = true → bytesOk l := by
    intro l hl x hx
    simp only [Codec.octetsOk, List.all_eq_true, decide_eq_true_eq] at hl
    exact hl x hx
  cases c with
  | neg l r sm => trivial
  | contains n a =>
    simp only [Codec.wfCase, Bool.and_eq_true] at h
    exact ⟨oct _ h.1, oct _ h.2⟩
  | hist g groups peers ops =>
    simp only [Codec.wfCase, Bool.and_eq_true, List.all_eq_true] at h
    obtain ⟨⟨⟨h1, h2⟩, h3⟩, h4⟩ := h
    refine ⟨?_, ?_, ?_, ?_⟩
    · unfold confedIdOk
      cases hc : g.confed with
      | none => trivial
      | some c => obtain ⟨id, m⟩ := c; rw [hc] at h1; simpa using h1
    · intro gr hgr n hn
      exact oct _ (h2 gr hgr n hn)
    · intro pc hpc
      have := h3 pc hpc
      simp only [Bool.and_eq_true, Bool.not_eq_true'] at this
      exact this.1
    · intro op hop a r he
      have := h4 op hop
      subst he
      exact oct _ this

/-- non-vacuity of `CaseWF`: a history with a dynamic group, a configured neighbour and all operations -/
example : CaseWF (.hist ⟨65001, 1, some (65000, [65002])⟩
    [{ name := "g1", asn := 65002, localAsn := 0, hold := some 30, passive := false, rs := false, rrClient := false
       cluster := none, fams := [(65537, 3)], sm := [(65537, 2)], gr := none, llgr := none, nets := [⟨[127, 0, 2, 0], 24⟩] }]
    [f16cPeer] [.connect ⟨[127, 0, 2, 7]⟩ .passive, .disc 0, .disable ⟨[127, 0, 0, 5]⟩]) := by
  refine ⟨by simp [confedIdOk], ?_, ?_, ?_⟩
  · intro g hg n hn
    simp at hg; subst hg; simp at hn; subst hn
    intro x hx; simp at hx; rcases hx with rfl | rfl | rfl | rfl <;> decide
  · intro pc hpc; simp at hpc; subst hpc; rfl
  · intro op hop a r he
    simp at hop
    rcases hop with rfl | rfl | rfl <;> cases he
    intro x hx; simp at hx; rcases hx with rfl | rfl | rfl | rfl <;> decide

end Rbgp.Accept.Props
