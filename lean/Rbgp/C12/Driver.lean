import Rbgp.Rpki.Codec
import Rbgp.Rpki.Spec
namespace Rbgp.C12
open Rbgp Rbgp.Term Rbgp.Rpki Rbgp.Rpki.Codec

/-! evidence only: which input classes a case exercises (boundary buckets) -/

def lenClass (n : Net) : String :=
  let w := 8 * n.fam.nbytes
  let f := if n.fam = .v4 then "4" else "6"
  if n.len = 0 then s!"len{f}-0"
  else if n.len = w then s!"len{f}-max"
  else if n.len + 1 = w then s!"len{f}-max-1"
  else if n.len > w then s!"len{f}-over-max"
  else if n.len % 8 = 0 then s!"len{f}-byte-boundary"
  else if n.len % 8 = 1 then s!"len{f}-boundary+1"
  else if n.len % 8 = 7 then s!"len{f}-boundary-1"
  else s!"len{f}-other"

def asnClass (a localAsn : Nat) : String :=
  if a = 0 then "0" else if a = 1 then "1" else if a = 4294967295 then "max" else if a = 4294967294 then "max-1"
  else if a = localAsn then "local" else "other"

def tailClass : Option (List Seg) → String
  | none => "path-absent"
  | some [] => "path-empty"
  | some segs =>
      match segs.getLast? with
      | some (t, asns) =>
          (if asns.isEmpty then "tail-empty-segment"
           else if t = 1 then "tail-as-set" else if t = 2 then "tail-as-sequence"
           else if t = 3 then "tail-confed-sequence" else if t = 4 then "tail-confed-set" else "tail-bad-type")
      | none => "path-empty"

def segLenClass : Option (List Seg) → List String
  | some segs => if segs.any (fun s => s.2.length = 255) then ["segment-255-as"] else []
  | none => []

/-- relation of the route to the VRPs of the set: how many cover it, and how max-length sits -/
def relClass (s : List Spec.Vrp) (r : Net) : List String :=
  let cov := s.filter (fun v => Spec.covers v r)
  (if cov.isEmpty then ["route-uncovered"] else if cov.length = 1 then ["route-covered-once"] else ["route-covered-many"]) ++
  (if cov.any (fun v => v.maxlen + 1 = r.len) then ["maxlen-one-below-route"] else []) ++
  (if cov.any (fun v => v.maxlen = r.len) then ["maxlen-equals-route"] else []) ++
  (if cov.any (fun v => v.maxlen = r.len + 1) then ["maxlen-one-above-route"] else []) ++
  (if cov.any (fun v => v.len = r.len) then ["vrp-prefix-equals-route"] else []) ++
  (if cov.any (fun v => v.asn = 0) then ["covered-by-as0-vrp"] else []) ++
  (if s.any (fun v => v.fam = r.fam && v.len = r.len + 1 && !Spec.covers v r) then ["more-specific-by-one-present"] else [])

def opStat (la ga : Nat) (s : List Spec.Vrp) : Op → List String
  | .ins c n ml a =>
      let v := Spec.vrpOf c n ml a
      ["vrp-" ++ lenClass n, "vrp-as-" ++ asnClass a la,
       if ml < n.len then "vrp-maxlen-below-len" else if ml = n.len then "vrp-maxlen-eq-len" else if ml = 255 then "vrp-maxlen-255" else "vrp-maxlen-above-len"] ++
      (if s.contains v then ["ins-duplicate"] else []) ++
      (if s.any (fun x => x ≠ v && { x with cache := c } = v) then ["ins-same-vrp-other-cache"] else []) ++
      (if s.any (fun x => x.cache = c && x.fam = v.fam && x.len = v.len && x.bits = v.bits && x ≠ v) then ["ins-second-vrp-same-prefix-same-cache"] else [])
  | .rem c n ml a =>
      let v := Spec.vrpOf c n ml a
      if !s.contains v then ["rem-absent"]
      else if s.any (fun x => x ≠ v && x.fam = v.fam && x.len = v.len && x.bits = v.bits) then ["rem-one-of-several"] else ["rem-last-of-prefix"]
  | .drop c =>
      let mine := s.filter (fun x => x.cache = c)
      (if mine.isEmpty then ["drop-nothing"] else ["drop-some"]) ++
      (if mine.any (fun x => mine.any (fun y => x ≠ y && x.fam = y.fam && x.len = y.len && x.bits = y.bits)) then ["drop-several-under-one-prefix"] else [])
  | .reset _ vs => [if vs.isEmpty then "reset-empty" else "reset-nonempty"]
  | .val r p => ["val-" ++ lenClass r, tailClass p, "state-" ++ (match Spec.rfc6811 s (Spec.originRfc la p) r with
                  | .valid => "valid" | .invalid => "invalid" | .notFound => "notfound")] ++ segLenClass p ++ relClass s r ++
                (if (Spec.famOf s r.fam).isEmpty then ["val-on-empty-family"] else [])
  | .iter _ => ["iter"]
  | .display loc st r p =>
      [if loc then "show-local-route" else "show-peer-route", tailClass p,
       "origin-as-" ++ asnClass (if loc then ga else la) 0,
       if Spec.rfc6811 s (Spec.originRfc (if loc then ga else la) p) r = st then "policy-state-matches" else "policy-state-differs"] ++
      (if loc ∧ ga ≠ la then ["global-as-differs-from-session-as"] else []) ++ relClass s r

def statsFrom (la ga : Nat) : List Spec.Vrp → List Op → List String
  | _, [] => []
  | s, op :: ops => opStat la ga s op ++ statsFrom la ga (Spec.sStep s op) ops

def dedup (l : List String) : List String :=
  l.foldl (fun acc k => if acc.contains k then acc else acc ++ [k]) []

def verdictStr : Spec.Verdict → String
  | .ok => "ok"
  | .fail i c => s!"fail step={i} clause={c}"

/-- mode `model`: case ↦ observation of the model;
    mode `oracle`: case TAB observation ↦ verdict of the C12 reference checker. -/
def handler (mode : String) (line : String) : String :=
  match mode with
  | "model" =>
      match (parse line).bind caseOf? with
      | some c => toStr (outT (run c))
      | none => "(bad-case)"
  | "oracle" =>
      match parseMany line with
      | some [c, o] =>
          match caseOf? c with
          | some c =>
              match outOf? o with
              | some out => verdictStr (Spec.check c out)
              | none => "fail step=0 clause=unparsable-observation"
          | none =>
              -- an ill-formed case must be rejected by the harness as well
              if toStr o == "(bad-case)" then "ok" else "fail step=0 clause=ill-formed-case-accepted"
      | _ => "(bad-line)"
  | "stats" =>
      -- one token per input class the case exercises (counted per case)
      match parseMany line with
      | some [c, _] =>
          match caseOf? c with
          | some c => " ".intercalate ((dedup (statsFrom c.localAsn c.globalAsn [] c.ops)).map (· ++ "=1"))
          | none => "ill-formed-case=1"
      | _ => "other=1"
  | _ => "(bad-mode)"

end Rbgp.C12
