import Rbgp.Rpki.Codec
import Rbgp.Rpki.Spec
namespace Rbgp.C12
open Rbgp Rbgp.Term Rbgp.Rpki Rbgp.Rpki.Codec

def verdictStr : Spec.Verdict → String
  | .ok => "ok"
  | .fail i c => s!"fail step={i} clause={c}"

/-- mode `model`: case ↦ observation of the model;
    mode `oracle`: case TAB observation ↦ verdict of the C12 reference checker. -/
def handler (mode : String) (line : String) : String :=
  match mode with
  | "model" =>
      match (parse line).bind caseOf? with
      | some c => toStr (outT (run c))
      | none => "(bad-case)"
  | "oracle" =>
      match parseMany line with
      | some [c, o] =>
          match caseOf? c with
          | some c =>
              match outOf? o with
              | some out => verdictStr (Spec.check c out)
              | none => "fail step=0 clause=unparsable-observation"
          | none =>
              -- an ill-formed case must be rejected by the harness as well
              if toStr o == "(bad-case)" then "ok" else "fail step=0 clause=ill-formed-case-accepted"
      | _ => "(bad-line)"
  | _ => "(bad-mode)"

end Rbgp.C12
