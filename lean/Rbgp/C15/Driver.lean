import Rbgp.Rib.Codec
import Rbgp.Rib.SpecC15
namespace Rbgp.C15
open Rbgp Rbgp.Term Rbgp.Rib Rbgp.Rib.Codec

def verdictStr : SpecC15.Verdict → String
  | .ok => "ok"
  | .fail i c => s!"fail step={i} clause={c}"

/-- lines are `profile TAB case [TAB observation]`.
    mode `model`: ↦ observation of the model; mode `oracle`: ↦ verdict of the C15 reference checker. -/
def handler (mode : String) (line : String) : String :=
  match line.splitOn "\t" with
  | prof :: rest =>
      match profileOf? prof, rest.mapM parse with
      | some p, some [c] =>
          if mode != "model" then "(bad-line)" else
          match caseOf? c with
          | some cs => toStr (obsT (observe p cs))
          | none => "(bad-case)"
      | some _, some [c, o] =>
          if mode != "oracle" then "(bad-line)" else
          match caseOf? c with
          | some cs =>
              match obsOf? o with
              | some ob => verdictStr (SpecC15.check cs ob)
              | none => if o == .list [.atom "bad-case"] then "fail step=0 clause=case-rejected-by-harness"
                        else "fail step=0 clause=unparsable-observation"
          | none => if o == .list [.atom "bad-case"] then "ok" else "fail step=0 clause=bad-case-accepted-by-harness"
      | _, _ => "(bad-line)"
  | _ => "(bad-line)"

end Rbgp.C15
