/-
  Rbgp.Enc.Codec — Term codec for C04 cases and observations (grammar: see
  harness/pt/src/bin/c04.rs; both sides must accept / print exactly the same lines).
-/
import Rbgp.Term
import Rbgp.Enc.Run
namespace Rbgp.Enc.Codec
open Rbgp Rbgp.Term Rbgp.Enc

def natLe? (t : Term) (max : Nat) : Option Nat :=
  match asNat? t with
  | some n => if n ≤ max then some n else none
  | none => none

def U32 : Nat := 4294967295

def fam? (a s : Term) : Option Fam := do
  let afi ← natLe? a 65535
  let safi ← natLe? s 255
  pure ⟨afi, safi⟩

def ascii? (t : Term) : Option Bytes := do
  let b ← asBytes? t
  -- the Rust value is a `String`: any well-formed UTF-8
  if utf8Valid b then some b else none

/-! attribute data -/

def fill (len seed : Nat) : Bytes := (List.range len).map (fun i => (seed + 31 * i) % 251)

def seg? : Term → Option Bytes
  | .list [.atom "segr", ty, cnt, base, step] => do
      let ty ← natLe? ty 255
      let cnt ← natLe? cnt 255
      let base ← natLe? base U32
      let step ← natLe? step U32
      pure ([ty, cnt] ++ (List.range cnt).flatMap (fun i => be32 ((base + i * step) % 4294967296)))
  | .list (ty :: asns) => do
      if asns.length > 255 then none
      let ty ← natLe? ty 255
      let l ← asns.mapM (natLe? · U32)
      pure ([ty, l.length] ++ l.flatMap be32)
  | _ => none

def data? : Term → Option Bytes
  | .atom s => asBytes? (.atom s)
  | .list [.atom "fill", len, seed] => do
      let len ← natLe? len 70000
      let seed ← natLe? seed 4294967296
      pure (fill len seed)
  | .list (.atom "asp" :: segs) => (segs.mapM seg?).map List.flatten
  | _ => none

def triple? (t : Term) (m : Nat) : Option (Fam × Nat) :=
  match t with
  | .list [a, s, x] => do
      let f ← fam? a s
      let v ← natLe? x m
      pure (f, v)
  | _ => none

def cap? : Term → Option Cap
  | .atom "rr" => some .rr
  | .atom "em" => some .em
  | .atom "err" => some .err
  | .list [.atom "mp", a, s] => (fam? a s).map .mp
  | .list (.atom "enh" :: l) => (l.mapM (triple? · 65535)).map .enh
  | .list (.atom "gr" :: fl :: tm :: l) => do
      let flags ← natLe? fl 255
      let time ← natLe? tm 65535
      let fams ← l.mapM (triple? · 255)
      pure (.gr flags time fams)
  | .list [.atom "as4", n] => (natLe? n U32).map .as4
  | .list (.atom "ap" :: l) => (l.mapM (triple? · 255)).map .ap
  | .list (.atom "llgr" :: l) =>
      (l.mapM (fun (t : Term) => match t with
        | .list [a, s, x, y] => do
            let f ← fam? a s
            let fl ← natLe? x 255
            let tm ← natLe? y U32
            pure (f, fl, tm)
        | _ => none)).map .llgr
  | .list [.atom "fqdn", h, d] => do
      let hb ← ascii? h
      let db ← ascii? d
      pure (.fqdn hb db)
  | .list [.atom "unk", c, b] => do
      let code ← natLe? c 255
      let bin ← data? b
      pure (.unk code bin)
  | _ => none

def famT (f : Fam) : List Term := [nat f.afi, nat f.safi]

def capT : Cap → Term
  | .mp f => tag "mp" (famT f)
  | .rr => sym "rr"
  | .enh l => tag "enh" (l.map (fun x => .list (famT x.1 ++ [nat x.2])))
  | .em => sym "em"
  | .gr fl tm l => tag "gr" ([nat fl, nat tm] ++ l.map (fun x => .list (famT x.1 ++ [nat x.2])))
  | .as4 n => tag "as4" [nat n]
  | .ap l => tag "ap" (l.map (fun x => .list (famT x.1 ++ [nat x.2])))
  | .err => sym "err"
  | .llgr l => tag "llgr" (l.map (fun x => .list (famT x.1 ++ [nat x.2.1, nat x.2.2])))
  | .fqdn h d => tag "fqdn" [Term.bytes h, Term.bytes d]
  | .unk c b => tag "unk" [nat c, Term.bytes b]

/-- `(raw FLAGS CODE DATA)`: the attribute the real decoder returns for this wire attribute. -/
def rawAttr? (flags code : Nat) (data : Bytes) : Option Attr :=
  if code = 3 ∨ code = 14 ∨ code = 15 ∨ code = 17 ∨ code = 18 ∨ data.length > 65535 then none
  else if !hasExt flags ∧ data.length > 255 then none
  else if 23 + (if hasExt flags then 4 else 3) + data.length > 65535 then none
  else match attrStep false {} ⟨flags, code, data⟩ with
    | some st => match st.attrs with
      | [a] => if st.errs.isEmpty ∧ a.code = code ∧ a.flags = flags then some a else none
      | _ => none
    | none => none

def attr? : Term → Option Attr
  | .list [.atom "val", c, n] => do
      let code ← natLe? c 255
      let v ← natLe? n U32
      let fl ← canonicalFlags code
      pure ⟨code, fl, .val v⟩
  | .list [.atom "bin", c, d] => do
      let code ← natLe? c 255
      let b ← data? d
      let fl ← canonicalFlags code
      pure ⟨code, fl, .bin b⟩
  | .list [.atom "opq", c, f, d] => do
      let code ← natLe? c 255
      if (canonicalFlags code).isSome then none
      let fl ← natLe? f 255
      let b ← data? d
      pure ⟨code, fl, .opq b⟩
  | .list [.atom "raw", f, c, d] => do
      let fl ← natLe? f 255
      let code ← natLe? c 255
      let b ← data? d
      rawAttr? fl code b
  | _ => none

def attrT (a : Attr) : Term :=
  match a.data with
  | .opq b => tag "opq" [nat a.code, nat a.flags, Term.bytes b]
  | .val v => tag "val" [nat a.code, nat a.flags, nat v]
  | .bin b => tag "bin" [nat a.code, nat a.flags, Term.bytes b]

def b16? (t : Term) : Option Bytes := do
  let b ← asBytes? t
  if b.length = 16 then some b else none

def nh? : Term → Option (Option Nh)
  | .atom "none" => some none
  | .list [.atom "v4", n] => (natLe? n U32).map (fun a => some (.v4 (be32 a)))
  | .list [.atom "v6", b] => (b16? b).map (fun a => some (.v6 a))
  | .list [.atom "v6ll", g, l] => do
      let g ← b16? g
      let l ← b16? l
      pure (some (.v6ll g l))
  | _ => none

def nhT : Option Nh → Term
  | none => sym "none"
  | some (.v4 a) => tag "v4" [nat (beNat a)]
  | some (.v6 a) => tag "v6" [Term.bytes a]
  | some (.v6ll g l) => tag "v6ll" [Term.bytes g, Term.bytes l]

def be128 (n : Nat) : Bytes := (List.range 16).map (fun i => n / 256 ^ (15 - i) % 256)

def odec? : Term → Option ODec
  | .atom "err" => some .err
  | .atom "panic" => some .panic
  | .list l => (l.mapM (fun (t : Term) => match t with
      | .list [.atom "o", pid, eq] => do
          let p ← natLe? pid U32
          let e ← asBool? eq
          pure (p, e)
      | _ => none)).map .ents
  | _ => none

/-- Has the NLRI `mk_nlri(fam, kind, seed)` of harness/pt/src/c04_fam.rs a wire form?  Decided from the input:
    VPN (SAFI 128) and labeled-unicast (SAFI 4) NLRI carry `kind` labels and a prefix of `seed % (max+1)` bits, and
    their length octet counts bits (RFC 8277 §2.2, RFC 4364 §4.3.4): labels·24 (+64 for the RD) + prefix ≤ 255.
    A labeled-unicast withdrawal carries one compatibility field instead of the stack (RFC 8277 §2.4).
    Every other family's constructors only build encodable values. -/
def hasWireForm (f : Fam) (reach : Bool) (kind seed : Nat) : Bool :=
  let maxMask := if f.afi = 1 then 32 else 128
  if (f.afi = 1 ∨ f.afi = 2) ∧ f.safi = 128 then 24 * kind + 64 + seed % (maxMask + 1) ≤ 255
  else if (f.afi = 1 ∨ f.afi = 2) ∧ f.safi = 4 then (if reach then 24 * kind + seed % (maxMask + 1) ≤ 255 else true)
  -- flowspec kind 4 = a rule body of exactly `FLOW_BODY_TARGETS[seed % 12]` octets; the length field has 12 bits
  else if (f.afi = 1 ∨ f.afi = 2) ∧ (f.safi = 133 ∨ f.safi = 134) ∧ kind = 4 then
    ([238, 239, 240, 241, 242, 254, 255, 256, 257, 4094, 4095, 4096].getD (seed % 12) 0) ≤ 4095
  else true

/-- STRUCT ::= (vpn (LABEL*) RD xADDR MASK) | (lab (LABEL*) xADDR MASK) | (flow V6 (RD | none) (COMP*))
             | (evpn ead RD xESI ETAG LABEL) | (evpn macip RD xESI ETAG xMAC xIP LABEL (LABEL | none))
             | (evpn imet RD ETAG xIP) | (evpn es RD xESI xIP) | (evpn pfx RD xESI ETAG PLEN xIP xGW LABEL)
    RD ::= (rd TYPE ADMIN ASSIGNED)    COMP ::= (p TYPE MASK OFFSET xADDR) | (n TYPE (BITS VALUE)*)
    the structure of an NLRI whose codec is modelled, read off the Rust value through public fields (never through
    the encoder) -/
def struct? : Term → Option NStruct
  | .list [.atom "vpn", .list ls, .list [.atom "rd", t, a, n], addr, m] => do
      let ls ← ls.mapM (fun x => natLe? x 1048575)
      let t ← natLe? t 2
      let a ← natLe? a U32
      let n ← natLe? n U32
      let addr ← asBytes? addr
      let m ← natLe? m 128
      if addr.length = 4 ∨ addr.length = 16 then some (.vpn ls ⟨t, a, n⟩ addr m) else none
  | .list [.atom "lab", .list ls, addr, m] => do
      let ls ← ls.mapM (fun x => natLe? x 1048575)
      let addr ← asBytes? addr
      let m ← natLe? m 128
      if addr.length = 4 ∨ addr.length = 16 then some (.lab ls addr m) else none
  | .list [.atom "flow", v6, rd, .list comps] => do
      let v6 ← natLe? v6 1
      let rd ← (match rd with | .atom "none" => some none | t => (rd? t).map some)
      let cs ← comps.mapM (comp? (v6 == 1))
      pure (.flow (v6 == 1) rd cs)
  | .list [.atom "evpn", .atom "ead", rd, esi, etag, l] => do
      pure (.evpn (.ead (← rd? rd) (← fixed? esi 10) (← natLe? etag U32) (← natLe? l U32)))
  | .list [.atom "evpn", .atom "macip", rd, esi, etag, mac, ip, l1, l2] => do
      let l2 ← (match l2 with | .atom "none" => some none | t => (natLe? t U32).map some)
      pure (.evpn (.macip (← rd? rd) (← fixed? esi 10) (← natLe? etag U32) (← fixed? mac 6) (← ip? true ip) (← natLe? l1 U32) l2))
  | .list [.atom "evpn", .atom "imet", rd, etag, ip] => do
      pure (.evpn (.imet (← rd? rd) (← natLe? etag U32) (← ip? false ip)))
  | .list [.atom "evpn", .atom "es", rd, esi, ip] => do
      pure (.evpn (.es (← rd? rd) (← fixed? esi 10) (← ip? false ip)))
  | .list [.atom "evpn", .atom "pfx", rd, esi, etag, plen, ip, gw, l] => do
      pure (.evpn (.pfx (← rd? rd) (← fixed? esi 10) (← natLe? etag U32) (← natLe? plen 255) (← ip? false ip) (← ip? false gw)
        (← natLe? l U32)))
  | _ => none
where
  rd? : Term → Option Rd
    | .list [.atom "rd", t, a, n] => do pure ⟨← natLe? t 2, ← natLe? a U32, ← natLe? n U32⟩
    | _ => none
  fixed? (t : Term) (n : Nat) : Option Bytes := do
    let b ← asBytes? t
    if b.length = n then some b else none
  ip? (zero : Bool) (t : Term) : Option Bytes := do
    let b ← asBytes? t
    if b.length = 4 ∨ b.length = 16 ∨ (zero ∧ b.length = 0) then some b else none
  op? : Term → Option FOp
    | .list [b, v] => do pure ⟨← natLe? b 255, ← natLe? v 18446744073709551615⟩
    | _ => none
  comp? (v6 : Bool) : Term → Option FComp
    | .list [.atom "p", ty, m, off, addr] => do
        let addr ← asBytes? addr
        if addr.length = (if v6 then 16 else 4) then
          pure (.pfx (← natLe? ty 2) (← natLe? m 255) (← natLe? off 255) addr)
        else none
    | .list (.atom "n" :: ty :: ops) => do pure (.num (← natLe? ty 13) (← ops.mapM op?))
    | _ => none

/-- wire form of a structured NLRI: the bit count must fit the length octet (a labeled withdrawal carries one
    compatibility field instead of its stack) -/
def structWire (reach : Bool) : NStruct → Bool
  | .vpn ls _ _ m => 24 * ls.length + 64 + m ≤ 255
  | .lab ls _ m => if reach then 24 * ls.length + m ≤ 255 else true
  -- RFC 8955 §4.1: the rule (with the RD of the VPN form) must fit the 12-bit length
  | .flow v6 rd cs =>
      (match compsBytes v6 cs with
       | .ok b => (if rd.isSome then 8 else 0) + b.length ≤ 4095
       | _ => true)
  | .evpn _ => true

/-- PROBE ::= (ENC DEC) | (ENC DEC STRUCT) -/
def probe? (w reach : Bool) (t : Term) : Option Nlri :=
  let mk (enc : Out Bytes) (d : Term) (st : Option Term) : Option Nlri := do
    let x ← odec? d
    match st with
    | none => pure (.opq enc x ⟨w, !reach, none⟩)
    | some stt => do
        let s ← struct? stt
        pure (.opq enc x ⟨structWire reach s, !reach, some s⟩)
  let encOf (e : Term) : Option (Out Bytes) :=
    match e with
    | .atom "panic" => some .panic
    | .atom "err" => some .err
    | e => (asBytes? e).map .ok
  match t with
  | .list [e, d] => (encOf e).bind (fun enc => mk enc d none)
  | .list [e, d, st] => (encOf e).bind (fun enc => mk enc d (some st))
  | _ => none

def entry? (p : Profile) (f : Fam) (reach : Bool) : Term → Option (List Entry)
  | .list [.atom "v4", a, m, pid] => do
      let a ← natLe? a U32
      let m ← natLe? m 32
      let pid ← natLe? pid U32
      pure [⟨.ip false (be32 a) m, pid⟩]
  | .list [.atom "v4r", a, m, pid, ps, cnt] => do
      let a ← natLe? a U32
      let m ← natLe? m 32
      let pid ← natLe? pid U32
      let ps ← natLe? ps U32
      let cnt ← natLe? cnt 100000
      let step := if m = 0 then 0 else 2 ^ (32 - m)
      pure ((List.range cnt).map (fun i =>
        ⟨.ip false (be32 ((a + i * step) % 4294967296)) m, (pid + i * ps) % 4294967296⟩))
  | .list [.atom "v6", a, m, pid] => do
      let a ← b16? a
      let m ← natLe? m 128
      let pid ← natLe? pid U32
      pure [⟨.ip true a m, pid⟩]
  | .list [.atom "v6r", a, m, pid, ps, cnt] => do
      let a ← b16? a
      let m ← natLe? m 128
      let pid ← natLe? pid U32
      let ps ← natLe? ps U32
      let cnt ← natLe? cnt 100000
      let step := if m = 0 then 0 else 2 ^ (128 - m)
      pure ((List.range cnt).map (fun i =>
        ⟨.ip true (be128 ((beNat a + i * step) % 2 ^ 128)) m, (pid + i * ps) % 4294967296⟩))
  | .list [.atom "o", k, s, pid, pr] => do
      let k ← natLe? k 255
      let s ← natLe? s 18446744073709551615
      let pid ← natLe? pid U32
      let n ← probe? (hasWireForm f reach k s) reach pr
      pure [⟨n, pid⟩]
  | .list [.atom "o", k, s, pid, pd, pr] => do
      let k ← natLe? k 255
      let s ← natLe? s 18446744073709551615
      let pid ← natLe? pid U32
      let n ← probe? (hasWireForm f reach k s) reach (match p with | .debug => pd | .release => pr)
      -- both probes must be well-formed
      let _ ← probe? true reach pd
      let _ ← probe? true reach pr
      pure [⟨n, pid⟩]
  | _ => none

def entries? (p : Profile) (f : Fam) (reach : Bool) (l : List Term) : Option (List Entry) :=
  (l.mapM (entry? p f reach)).map List.flatten

def msg? (p : Profile) : Term → Option Msg
  | .atom "keepalive" => some .keepalive
  | .list (.atom "open" :: a :: h :: r :: caps) => do
      let a ← natLe? a U32
      let h ← natLe? h 65535
      if h = 1 ∨ h = 2 then none
      let r ← natLe? r U32
      let caps ← caps.mapM cap?
      pure (.open a h r caps)
  | .list [.atom "reach", a, s, nh, .list (.atom "attrs" :: attrs), .list (.atom "entries" :: es)] => do
      let f ← fam? a s
      let nh ← nh? nh
      let attrs ← attrs.mapM attr?
      let es ← entries? p f true es
      pure (.reach f nh attrs es)
  | .list [.atom "unreach", a, s, .list (.atom "entries" :: es)] => do
      let f ← fam? a s
      let es ← entries? p f false es
      pure (.unreach f es)
  | .list [.atom "eor", a, s] => (fam? a s).map .eor
  | .list [.atom "notif", c, s, d] => do
      let c ← natLe? c 255
      let s ← natLe? s 255
      let d ← data? d
      pure (.notif c s d)
  | .list [.atom "rr", a, s] => (fam? a s).map .rr
  | _ => none

def case? (p : Profile) : Term → Option Input
  | .list [.atom "case", .list (.atom "local" :: l), .list (.atom "remote" :: r), m] => do
      let l ← l.mapM cap?
      let r ← r.mapM cap?
      let m ← msg? p m
      pure ⟨l, r, m⟩
  | _ => none

/-! observations -/

def dentryT : DEntry → Term
  | .ip false a m pid => tag "v4" [nat (beNat a), nat m, nat pid]
  | .ip true a m pid => tag "v6" [Term.bytes a, nat m, nat pid]
  | .o pid eq => tag "o" [nat pid, Term.bool eq]

def parsedT : Parsed → Term
  | .open a h r caps => tag "open" ([nat a, nat h, nat r] ++ caps.map capT)
  | .eor f => tag "eor" (famT f)
  | .notif c s d => tag "notif" [nat c, nat s, Term.bytes d]
  | .keepalive => sym "keepalive"
  | .rr f => tag "rr" (famT f)
  | .upd r mr u mu attrs errs =>
      let rT (x : Option (Fam × Option Nh × List DEntry)) : Term := match x with
        | none => sym "none"
        | some (f, nh, l) => tag "r" (famT f ++ [nhT nh] ++ l.map dentryT)
      let uT (x : Option (Fam × List DEntry)) : Term := match x with
        | none => sym "none"
        | some (f, l) => tag "u" (famT f ++ l.map dentryT)
      tag "upd" [rT r, rT mr, uT u, uT mu, tag "attrs" (attrs.map attrT),
                 tag "errs" (errs.map (fun e => .list [nat e.1, nat e.2]))]

def dresT : DRes → Term
  | .msg p => parsedT p
  | .err c s => tag "err" [nat c, nat s]
  | .short n => tag "short" [nat n]
  | .panic => tag "panic" []

def fpT : Fp → Term
  | .t => sym "t" | .f => sym "f" | .na => sym "na" | .panic => sym "panic"

def obsT : Obs → Term
  | .panic => tag "panic" []
  | .err => tag "err" []
  | .obs n s d fp => tag "obs" [nat n, Term.bytes s, tag "dec" (d.map dresT), tag "fp" [fpT fp]]

/-! parsing observations back (for the oracle) -/

def dentry? : Term → Option DEntry
  | .list [.atom "v4", a, m, pid] => do
      let a ← natLe? a U32
      let m ← asNat? m
      let pid ← asNat? pid
      pure (.ip false (be32 a) m pid)
  | .list [.atom "v6", a, m, pid] => do
      let a ← b16? a
      let m ← asNat? m
      let pid ← asNat? pid
      pure (.ip true a m pid)
  | .list [.atom "o", pid, eq] => do
      let pid ← asNat? pid
      let eq ← asBool? eq
      pure (.o pid eq)
  | _ => none

def dattr? : Term → Option Attr
  | .list [.atom "val", c, f, n] => do
      let c ← asNat? c
      let f ← asNat? f
      let n ← asNat? n
      pure ⟨c, f, .val n⟩
  | .list [.atom "bin", c, f, b] => do
      let c ← asNat? c
      let f ← asNat? f
      let b ← asBytes? b
      pure ⟨c, f, .bin b⟩
  | .list [.atom "opq", c, f, b] => do
      let c ← asNat? c
      let f ← asNat? f
      let b ← asBytes? b
      pure ⟨c, f, .opq b⟩
  | _ => none

def r? : Term → Option (Option (Fam × Option Nh × List DEntry))
  | .atom "none" => some none
  | .list (.atom "r" :: a :: s :: nh :: l) => do
      let f ← fam? a s
      let nh ← nh? nh
      let l ← l.mapM dentry?
      pure (some (f, nh, l))
  | _ => none

def u? : Term → Option (Option (Fam × List DEntry))
  | .atom "none" => some none
  | .list (.atom "u" :: a :: s :: l) => do
      let f ← fam? a s
      let l ← l.mapM dentry?
      pure (some (f, l))
  | _ => none

def dres? : Term → Option DRes
  | .atom "keepalive" => some (.msg .keepalive)
  | .list (.atom "open" :: a :: h :: r :: caps) => do
      let a ← asNat? a
      let h ← asNat? h
      let r ← asNat? r
      let caps ← caps.mapM cap?
      pure (.msg (.open a h r caps))
  | .list [.atom "eor", a, s] => (fam? a s).map (fun f => .msg (.eor f))
  | .list [.atom "notif", c, s, d] => do
      let c ← asNat? c
      let s ← asNat? s
      let d ← asBytes? d
      pure (.msg (.notif c s d))
  | .list [.atom "rr", a, s] => (fam? a s).map (fun f => .msg (.rr f))
  | .list [.atom "upd", r, mr, u, mu, .list (.atom "attrs" :: attrs), .list (.atom "errs" :: errs)] => do
      let r ← r? r
      let mr ← r? mr
      let u ← u? u
      let mu ← u? mu
      let attrs ← attrs.mapM dattr?
      let errs ← errs.mapM (fun (t : Term) => match t with
        | .list [c, f] => do
            let c ← asNat? c
            let f ← asNat? f
            pure (c, f)
        | _ => none)
      pure (.msg (.upd r mr u mu attrs errs))
  | .list [.atom "err", c, s] => do
      let c ← asNat? c
      let s ← asNat? s
      pure (.err c s)
  | .list [.atom "short", n] => (asNat? n).map .short
  | .list [.atom "panic"] => some .panic
  | _ => none

def obs? : Term → Option Obs
  | .list [.atom "panic"] => some .panic
  | .list [.atom "err"] => some .err
  | .list [.atom "obs", n, s, .list (.atom "dec" :: d), .list [.atom "fp", fp]] => do
      let n ← asNat? n
      let s ← asBytes? s
      let d ← d.mapM dres?
      let fp ← (match fp with
        | .atom "t" => some Fp.t | .atom "f" => some Fp.f | .atom "na" => some Fp.na | .atom "panic" => some Fp.panic
        | _ => none)
      pure (.obs n s d fp)
  | _ => none

end Rbgp.Enc.Codec
