/-
  Rbgp.Enc.Spec — the C04 reference checker, written from the property text:

    "For every message the daemon can build and every pair of capability sets, the encoder emits a
     sequence of frames that each respect the negotiated maximum size and whose length fields are
     mutually consistent, and decoding them with the peer's negotiated codec yields the same routes:
     the same multiset of (prefix, path-id), the same next hop and the same attributes up to the
     documented canonicalisation (AS4 reconciliation, extended-length flag).  Splitting a large update
     never drops, duplicates or reorders-away a prefix, and decode(encode(x)) is a fixed point for
     every value obtained by decoding."

  `check input obs` judges one observation: the byte stream written by the encoder, what the PEER's
  decoder returned for it, and the outcome of the fixed-point probe.  It uses the model's *types* and
  the structural reader (frame splitter, UPDATE section reader, TLV readers), never the encoder model.
  `buildable` is the quantifier domain ("every message the daemon can build"); outside it the oracle
  is silent.  Canonicalisation is exactly: EXTENDED-LENGTH flag bit ignored, FQDN lower-cased,
  NOTIFICATION data (diagnostic, no route content) cut to what fits the negotiated maximum; the
  AS_PATH / AGGREGATOR a 2-byte peer reconstructs (AS4 reconciliation) must equal the original.
  `encodable` says whether ANY encoding within the negotiated maximum exists (every entry fits a frame
  of its own next to the attribute block, the capability block fits its one-octet lengths, every NLRI
  has a wire form): if not, the only acceptable outcome is a refusal (`Err`), and a refusal is
  acceptable only then.
-/
import Rbgp.Enc.Run
namespace Rbgp.Enc.Spec
open Rbgp.Enc

inductive Verdict where
  | ok
  | fail (clause : String)
  deriving DecidableEq, Repr, Inhabited

/-! ### what was negotiated (RFC 5492 / 7911 / 8654 / 8950 / 6793 semantics on simple capability sets) -/

def mpFams (v : List Cap) : List Fam := v.filterMap (fun c => match c with | .mp f => some f | _ => none)
def apCaps (v : List Cap) : List (List (Fam × Nat)) := v.filterMap (fun c => match c with | .ap l => some l | _ => none)
def enhCaps (v : List Cap) : List (List (Fam × Nat)) := v.filterMap (fun c => match c with | .enh l => some l | _ => none)

def nodup {α} [DecidableEq α] : List α → Bool
  | [] => true
  | x :: xs => !xs.contains x && nodup xs

/-- no duplicate MP families, at most one ADD-PATH / extended-next-hop capability without duplicate
    families: the cases in which "what was negotiated" does not depend on tie-breaking -/
def simpleCaps (v : List Cap) : Bool :=
  nodup (mpFams v) && (apCaps v).length ≤ 1 && (apCaps v).all (fun l => nodup (l.map (·.1)))
  && (enhCaps v).length ≤ 1 && (enhCaps v).all (fun l => nodup (l.map (·.1)))

def hasMp (v : List Cap) (f : Fam) : Bool := (mpFams v).contains f
def apMode (v : List Cap) (f : Fam) : Nat :=
  match (apCaps v).flatten.find? (fun x => x.1 == f) with
  | some x => x.2
  | none => 0
def hasEnh (v : List Cap) (f : Fam) : Bool := (enhCaps v).flatten.any (fun x => x.1 == f && x.2 == 2)
def emBoth (l r : List Cap) : Bool := hasEm l && hasEm r
def as4Both (l r : List Cap) : Bool := hasAs4 l && hasAs4 r

def maxFrame (i : Input) : Nat := if emBoth i.loc i.rem then 65535 else 4096
def famNegotiated (i : Input) (f : Fam) : Bool := hasMp i.loc f && hasMp i.rem f
/-- sender (local) may send path ids for `f`: local mode has the send bit, remote mode the receive bit -/
def addPathTx (i : Input) (f : Fam) : Bool :=
  famNegotiated i f && apMode i.loc f / 2 % 2 == 1 && apMode i.rem f % 2 == 1
/-- RFC 8950 §4: "a BGP speaker MUST only advertise to a BGP peer the NLRI of <AFI, SAFI> with a next hop of the
    next-hop AFI if it has advertised the capability with that tuple AND received it from the peer": per family. -/
def enhNegotiated (i : Input) (f : Fam) : Bool :=
  famNegotiated i f && hasEnh i.loc f && hasEnh i.rem f
/-- RFC 8950 in force for IPv4 unicast: its NLRI then travel in MP_REACH_NLRI / MP_UNREACH_NLRI (an encoder choice
    that RFC 4760 permits; the legacy NLRI field cannot carry an IPv6 next hop) -/
def extNhNegotiated (i : Input) : Bool := enhNegotiated i Fam.ipv4

/-- The model's two codecs read the capability sets as the RFCs do, for family `f`: the family is in the peer's
    negotiated table, the sender's add-path-tx and the extended-next-hop flag are the RFC 7911 / RFC 8950 ones.
    (A consistency condition between `PeerCodec::negotiate` as modelled and the definitions above.) -/
def negAgree (i : Input) (f : Fam) : Bool :=
  (rxOf (negotiate i.rem i.loc) f).isSome &&
  (negotiate i.loc i.rem).addpathTx f == addPathTx i f &&
  (negotiate i.loc i.rem).extNh == extNhNegotiated i

/-! ### the quantifier domain -/

def knownCapCodes : List Nat := [1, 2, 5, 6, 64, 65, 69, 70, 71, 73]

def famOk (f : Fam) : Bool := f.afi < 65536 && f.safi < 256

/-- a capability value as `Capability::decode` can return it, with a value that fits a TLV -/
def capOk : Cap → Bool
  | .mp f => famOk f
  | .rr | .em | .err => true
  | .enh l => l.all (fun x => famOk x.1 && x.1.afi == 1 && x.2 == 2) && l.length * 6 ≤ 255
  | .gr fl tm l => fl < 16 && tm < 4096 && l.all (fun x => famOk x.1 && x.2 < 256) && 2 + l.length * 4 ≤ 255
  | .as4 n => n < 4294967296
  | .ap l => l.all (fun x => famOk x.1 && 1 ≤ x.2 && x.2 ≤ 3) && l.length * 4 ≤ 255
  | .llgr l => l.all (fun x => famOk x.1 && x.2.1 < 256 && x.2.2 < 16777216) && l.length * 7 ≤ 255
  | .fqdn h d => utf8Valid h && utf8Valid d && 2 + h.length + d.length ≤ 255
  | .unk c b => c < 256 && !knownCapCodes.contains c && b.all (· < 256) && b.length ≤ 255

def isFlowspecFam (f : Fam) : Bool := (f.afi == 1 || f.afi == 2) && (f.safi == 133 || f.safi == 134)

/-- RFC 8955 §4.1: a Flow Specification NLRI is its length (one octet below 240, else two octets carrying 12 bits)
    followed by exactly that many octets, and the length is written in the form its value calls for. -/
def flowNlriFramed (enc : Bytes) : Bool :=
  match readFlowNlriLen enc with
  | some (n, h) => enc.length == h + n && enc == flowNlriLen n ++ enc.drop h
  | none => false

def lastAs4? (caps : List Cap) : Option Nat :=
  caps.foldl (fun n c => match c with | .as4 a => some a | _ => n) none

def bytesOk (b : Bytes) : Bool := b.all (· < 256)

/-- wire value of an attribute's data -/
def wireValue (a : Attr) : Bytes :=
  match a.data with
  | .val v => if a.code = 1 then [v % 256] else be32 v
  | .bin b => b
  | .opq b => b

/-- An attribute as `Attribute::decode` / the public constructors with valid content produce it
    (DESIGN §3 `WF`): known code ⇒ the two high flag bits are the canonical ones and the data is what
    decoding its own wire value yields; unknown code ⇒ opaque, optional and transitive. -/
def attrOk (a : Attr) : Bool :=
  a.code < 256 && a.flags < 256 && bytesOk (wireValue a) && (wireValue a).length ≤ 65535 &&
  (match canonicalFlags a.code with
   | some exp => a.flags / 64 % 4 == exp / 64 % 4 && decodeAttrData a.code (wireValue a) false == some a.data
   | none => (match a.data with | .opq _ => true | _ => false) && a.flags / 64 % 4 == 3)

def nhOk : Nh → Bool
  | .v4 a => a.length == 4 && bytesOk a
  | .v6 a => a.length == 16 && bytesOk a
  | .v6ll g l => g.length == 16 && l.length == 16 && bytesOk g && bytesOk l && !(l.all (· == 0))

def entryOk (i : Input) (f : Fam) (e : Entry) : Bool :=
  e.pid < 4294967296 && (addPathTx i f || e.pid == 0) &&
  (match isIpFam f, e.nlri with
   | some v6, .ip v6' addr mask => v6 == v6' && addr.length == (if v6 then 16 else 4) && bytesOk addr && mask ≤ 8 * addr.length
   | none, .opq .. => isOpaqueFam f
   | _, _ => false)

def reservedAttrCodes : List Nat := [3, 14, 15, 17, 18]

def buildable (i : Input) : Bool :=
  simpleCaps i.loc && simpleCaps i.rem && i.loc.all capOk && i.rem.all capOk &&
  (match i.msg with
   | .open asn hold rid caps =>
       asn < 4294967296 && hold < 65536 && hold ≠ 1 && hold ≠ 2 &&
       rid < 4294967296 && rid ≠ 0 && rid ≠ 4294967295 && rid / 268435456 ≠ 14 &&
       caps.all capOk &&
       -- the AS number is recoverable: wide (or AS_TRANS itself) only with a matching 4-octet-AS capability
       (if asn > 65535 ∨ asn = TRANS_ASN then lastAs4? caps == some asn else true)
   | .reach f nh attrs es =>
       famOk f && famNegotiated i f &&
       (match nh with
        | none => isFlowspec f          -- only flowspec carries no next hop (RFC 8955 §4)
        | some n => !isFlowspec f && nhOk n &&
            -- RFC 8950: an IPv4-AFI family takes an IPv6 next hop only when that was negotiated FOR THIS FAMILY;
            -- RFC 2545: IPv6 NLRI need an IPv6 next hop
            (if f.afi == 1 then ((match n with | .v4 _ => true | _ => false) || enhNegotiated i f)
             else if f.afi == 2 then (match n with | .v4 _ => false | _ => true) else true)) &&
       attrs.all attrOk && nodup (attrs.map (·.code)) &&
       attrs.all (fun a => !reservedAttrCodes.contains a.code) &&
       -- the daemon only builds UPDATEs that carry routes (PendingTx groups pending prefixes into messages)
       !es.isEmpty && hasCode 1 attrs && hasCode 2 attrs &&
       es.all (entryOk i f)
   | .unreach f es => famOk f && famNegotiated i f && !es.isEmpty && es.all (entryOk i f)
   | .eor f => famOk f && (f == Fam.ipv4 || famNegotiated i f)
   | .notif c s d => c < 256 && s < 256 && bytesOk d && notifCanon c s d == (c, s, d)
   | .keepalive => true
   | .rr f => famOk f)

/-! ### expectations -/

def clearExt (flags : Nat) : Nat := if flags / 16 % 2 = 1 then flags - 16 else flags

/-- attribute up to the extended-length flag -/
def canonAttr (a : Attr) : Attr := { a with flags := clearExt a.flags }

def canonCap : Cap → Cap
  | .fqdn h d => .fqdn (h.map lower) (d.map lower)
  | c => c

/-- keep the first `mask` bits of an address -/
def maskAddr (addr : Bytes) (mask : Nat) : Bytes :=
  (List.range addr.length).map (fun k =>
    let b := addr.getD k 0
    if 8 * (k + 1) ≤ mask then b
    else if 8 * k ≥ mask then 0
    else b / 2 ^ (8 - (mask - 8 * k)) * 2 ^ (8 - (mask - 8 * k)))

/-- a (prefix, path-id) as one number (for sorting) -/
def keyOf (v6 : Bool) (addr : Bytes) (mask pid : Nat) : Nat :=
  ((((if v6 then 1 else 0) * 256 + mask) * 2 ^ 128 + beNat (maskAddr addr mask)) * 2 ^ 32) + pid

def inKey (e : Entry) : Option Nat :=
  match e.nlri with
  | .ip v6 a m => some (keyOf v6 a m e.pid)
  | .opq .. => none

def outKey : DEntry → Option Nat
  | .ip v6 a m pid => some (keyOf v6 a m pid)
  | .o .. => none

/-- merge of two sorted lists (tail recursive, structural on the fuel `f ≥ |a| + |b|`) -/
def mergeF : Nat → List Nat → List Nat → List Nat → List Nat
  | 0, a, b, acc => acc.reverse ++ a ++ b
  | _ + 1, [], b, acc => acc.reverse ++ b
  | _ + 1, a, [], acc => acc.reverse ++ a
  | f + 1, x :: xs, y :: ys, acc =>
      if x ≤ y then mergeF f xs (y :: ys) (x :: acc) else mergeF f (x :: xs) ys (y :: acc)

def halve : List Nat → List Nat × List Nat
  | [] => ([], [])
  | [x] => ([x], [])
  | x :: y :: r => let h := halve r; (x :: h.1, y :: h.2)

/-- merge sort by structural recursion on a fuel (so that the kernel can evaluate it on concrete inputs) -/
def msortF : Nat → List Nat → List Nat
  | 0, l => l
  | f + 1, l =>
      match l with
      | [] => []
      | [x] => [x]
      | _ => let h := halve l; mergeF l.length (msortF f h.1) (msortF f h.2) []

def sortNat (l : List Nat) : List Nat := msortF l.length l

def insertAttr (a : Attr) : List Attr → List Attr
  | [] => [a]
  | b :: bs => if a.code ≤ b.code then a :: b :: bs else b :: insertAttr a bs

/-- attributes sorted by type code (insertion sort: attribute lists are short) -/
def sortAttrs (l : List Attr) : List Attr := l.foldr insertAttr []

/-- first element of `a` (sorted) that is missing from `b` (sorted), counting multiplicity -/
def firstMissing : List Nat → List Nat → Option Nat
  | [], _ => none
  | x :: _, [] => some x
  | x :: xs, y :: ys =>
      if x = y then firstMissing xs ys
      else if x < y then some x
      else firstMissing (x :: xs) ys
termination_by a b => a.length + b.length

/-! ### structural clauses -/

def markerOk (fr : Bytes) : Bool := fr.take 16 == List.replicate 16 255

def expectedType : Msg → Nat
  | .open .. => 1 | .reach .. => 2 | .unreach .. => 2 | .eor _ => 2 | .notif .. => 3 | .keepalive => 4 | .rr _ => 5

/-- MP attribute values: header complete (RFC 4760 §3/§4) -/
def mpValueOk (r : RawAttr) : Bool :=
  if r.code = 14 then
    r.val.length ≥ 5 && r.val.length ≥ 5 + beNat ((r.val.drop 3).take 1)
  else if r.code = 15 then r.val.length ≥ 3
  else true

/-- NLRI region of an MP attribute value -/
def mpRegion (r : RawAttr) : Bytes :=
  if r.code = 14 then r.val.drop (5 + beNat ((r.val.drop 3).take 1)) else r.val.drop 3

/-- length-consistency of one frame; `none` = consistent -/
def frameLengths (fr : Bytes) : Option String :=
  let ty := beNat ((fr.drop 18).take 1)
  let body := fr.drop 19
  if ty = 2 then
    match updateSections body with
    | none => some "update-lengths-inconsistent"
    | some sec =>
        let (raws, clean) := tlvs sec.attrs
        if !clean then some "attribute-lengths-inconsistent"
        else if !raws.all mpValueOk then some "mp-lengths-inconsistent"
        else none
  else if ty = 1 then
    if body.length < 10 then some "open-lengths-inconsistent"
    else
      let plen := beNat ((body.drop 9).take 1)
      if body.length ≠ 10 + plen then some "open-lengths-inconsistent"
      else match optParams (body.drop 10) with
        | none => some "open-lengths-inconsistent"
        | some ps =>
            if ps.all (fun x => x.1 ≠ 2 || (capTlvs x.2).isSome) then none else some "open-lengths-inconsistent"
  else if ty = 3 then (if body.length < 2 then some "notification-too-short" else none)
  else if ty = 4 then (if body.length ≠ 0 then some "keepalive-length" else none)
  else if ty = 5 then (if body.length ≠ 4 then some "route-refresh-length" else none)
  else some "unknown-message-type"

def firstSome {α} (l : List α) (f : α → Option String) : Option String :=
  match l with
  | [] => none
  | x :: xs => match f x with
    | some s => some s
    | none => firstSome xs f

/-! ### decoded-value clauses -/

structure Carried where
  fam : Fam
  nh : Option (Option Nh)        -- `some` for reach sections
  ents : List DEntry

/-- sections of one decoded UPDATE that carry entries -/
def carried : Parsed → List Carried × List Carried
  | .upd r mr u mu _ _ =>
      ((r.toList.map (fun x => ⟨x.1, some x.2.1, x.2.2⟩)) ++ (mr.toList.map (fun x => ⟨x.1, some x.2.1, x.2.2⟩)),
       (u.toList.map (fun x => ⟨x.1, none, x.2⟩)) ++ (mu.toList.map (fun x => ⟨x.1, none, x.2⟩)))
  | _ => ([], [])

def entryIsOpq (e : Entry) : Bool := match e.nlri with | .opq .. => true | _ => false
def dentryIsIp : DEntry → Bool | .ip .. => true | _ => false
def dentryPid : DEntry → Nat | .o p _ => p | .ip _ _ _ p => p

def compareEntries (input : List Entry) (got : List DEntry) : Option String :=
  if input.any entryIsOpq then
    -- impl-only families: the real decoder's own equality verdicts + path ids
    if got.length < input.length then some "entries-dropped"
    else if got.length > input.length then some "entries-duplicated"
    else if got.any DEntry.isBad then some "entries-differ"
    else if got.any dentryIsIp then some "entries-differ"
    else if (input.map (·.pid)) ≠ got.map dentryPid then some "path-ids-differ"
    else none
  else
    let a := sortNat (input.filterMap inKey)
    let b := sortNat (got.filterMap outKey)
    if a == b then none
    else match firstMissing a b with
      | some _ => some "entries-dropped"
      | none => if a.length < b.length then some "entries-duplicated" else some "entries-differ"

def isMsg : DRes → Option Parsed
  | .msg p => some p
  | _ => none

/-- a decoded message that is not a route UPDATE (an End-of-RIB look-alike is tolerated for an empty input) -/
def notRouteUpd (esEmpty : Bool) : Parsed → Bool
  | .upd .. => false
  | .eor _ => !esEmpty
  | _ => true

/-- attributes of one decoded UPDATE that carries reachable entries, against the expected (sorted, canonical) list -/
def attrsVerdict (want : List Attr) : Parsed → Option String
  | .upd r mr _ _ got errs =>
      if r.isNone && mr.isNone then none
      else if !errs.isEmpty then some "attribute-errors-at-peer"
      else
        let g := sortAttrs (got.map canonAttr)
        if g == want then none
        else if (g.map (·.code)) ≠ want.map (·.code) then some "attribute-set-differs"
        else match (g.zip want).find? (fun x => x.1 ≠ x.2) with
          | some x =>
              if x.1.code = 2 then some "as-path-differs"
              else if x.1.data ≠ x.2.data then some "attribute-value-differs"
              else some s!"attribute-flags-differ-code-{x.1.code}"
          | none => some "attributes-differ"
  | _ => none

/-- the AS_PATH values the peer decoded on announcement frames -/
def decodedAsPaths (ps : List Parsed) : List Bytes :=
  ps.flatMap (fun p => match p with
    | .upd r mr _ _ got _ =>
        if r.isNone && mr.isNone then []
        else (got.filter (·.code == 2)).map wireValue
    | _ => [])

/-- Classification of an AS_PATH difference towards a 2-octet-AS peer as the recorded RFC 6793 limitation: the
    input path has a confederation segment behind a non-confederation one, or a wide AS number inside a confederation
    segment, AND what the peer decoded is exactly what RFC 6793 §4.2.3 yields for it (leading confederation segments
    with AS_TRANS for wide members, followed by the non-confederation segments unchanged).  Any other difference
    stays a plain `as-path-differs`. -/
def asPathCause (i : Input) (attrs : List Attr) (ps : List Parsed) : String :=
  if as4Both i.loc i.rem then ""
  else match attrs.find? (·.code == 2) with
  | some a =>
      (match parseSegs 4 (wireValue a) with
       | some segs =>
           let confed := fun (s : Seg) => s.1 == 3 || s.1 == 4
           let lead := (segs.takeWhile confed).map (fun s => (s.1, s.2.map (fun x => if x > 65535 then TRANS_ASN else x)))
           let rfc := encSegs 4 (lead ++ segs.filter (fun s => !confed s))
           let got := decodedAsPaths ps
           if got.isEmpty || got.any (· ≠ rfc) then ""
           else if (segs.dropWhile confed).any confed then "-confed-segment-not-leading"
           else if segs.any (fun s => confed s && s.2.any (· > 65535)) then "-confed-segment-wide-as"
           else ""
       | none => "")
  | none => ""

/-- families whose IPv4 next hop `mp_reach_encode` right-pads to 16 bytes (recorded defect F4d): every MP family
    except flowspec (no next hop), VPN (RD form) and the as-is ones (SR-policy, multicast, EVPN) -/
def paddedNhFam (f : Fam) : Bool := !isFlowspec f && !isVpn f && !nhAsIs f

/-- the peer recorded attribute errors / attributes for this decoded UPDATE -/
def updHasErrs : Parsed → Bool
  | .upd _ _ _ _ _ errs => !errs.isEmpty
  | _ => false
def updHasAttrs : Parsed → Bool
  | .upd _ _ _ _ got _ => !got.isEmpty
  | _ => false

def checkUpdate (i : Input) (f : Fam) (reach : Bool) (nh : Option Nh) (attrs : List Attr) (es : List Entry)
    (ps : List Parsed) : Option String :=
  -- every decoded message is a route UPDATE (or, for an empty input, possibly an End-of-RIB look-alike)
  let sections := ps.map carried
  let reachS := sections.flatMap (·.1)
  let unreachS := sections.flatMap (·.2)
  let mine := if reach then reachS else unreachS
  let other := if reach then unreachS else reachS
  if ps.any (notRouteUpd es.isEmpty) then some "decoded-kind-differs"
  else if other.any (fun c => !c.ents.isEmpty) then some "decoded-kind-differs"
  else if mine.any (fun c => c.fam ≠ f) then some "family-differs"
  else match compareEntries es (mine.flatMap (·.ents)) with
    | some s => some s
    | none =>
      if reach then
        if mine.any (fun c => c.nh ≠ some nh) then
          -- the recorded shape (F4d): an IPv4 next hop inside MP_REACH_NLRI of a family whose next hop the encoder
          -- pads, decoded as that address followed by 12 zero bytes; anything else is a plain difference
          let padded : Bool := match nh with
            | some (.v4 a) =>
                !(f == Fam.ipv4 && !extNhNegotiated i) && paddedNhFam f &&
                mine.all (fun c => c.nh == some (some (.v6 (a ++ List.replicate 12 0))))
            | _ => false
          some (if padded then "nexthop-differs-ipv4-in-mp-reach" else "nexthop-differs")
        else
          -- classify an AS_PATH difference (RFC 6793 limitation or not)
          (firstSome ps (attrsVerdict (sortAttrs (attrs.map canonAttr)))).map (fun s =>
            if s == "as-path-differs" then s ++ asPathCause i attrs ps else s)
      else
        -- a withdrawal carries no attributes, and the peer must not have seen attribute errors in it
        if ps.any updHasErrs then some "attribute-errors-at-peer"
        else if ps.any updHasAttrs then some "unexpected-attributes-in-withdraw"
        else none

def kindName : Msg → String
  | .open .. => "open" | .reach .. => "reach" | .unreach .. => "unreach" | .eor _ => "eor"
  | .notif .. => "notification" | .keepalive => "keepalive" | .rr _ => "route-refresh"

/-- theorem-backed families (`class=model`) vs impl-only exploration families (`class=explore`) -/
def famName : Msg → String
  | .reach f .. | .unreach f _ | .eor f => if (isIpFam f).isSome then " class=model" else " class=explore"
  | _ => ""

/-- does an UPDATE frame carry any NLRI bytes (withdrawn, legacy NLRI or an MP attribute region)? -/
def frameHasNlri (fr : Bytes) : Bool :=
  match updateSections (fr.drop 19) with
  | some sec =>
      !sec.withdrawn.isEmpty || !sec.nlri.isEmpty ||
      ((tlvs sec.attrs).1.any (fun r => (r.code = 14 ∨ r.code = 15) && !(mpRegion r).isEmpty))
  | none => true

/-- expected region bytes of the opaque-family entries -/
def opaqueRegion (addpath : Bool) (es : List Entry) : Option Bytes :=
  if es.all (fun e => match e.nlri with | .opq (.ok _) _ _ => true | _ => false) && !es.isEmpty then
    some (es.flatMap (fun e => (if addpath then be32 e.pid else []) ++ (match e.nlri with | .opq (.ok b) _ _ => b | _ => [])))
  else none

/-! ### can the message be encoded at all? (wire sizes from RFC 4271 §4.3, RFC 4760, RFC 6793, RFC 5492) -/

/-- size of an attribute TLV with a value of `n` bytes -/
def tlvSize (flags n : Nat) : Nat := (if n > 255 ∨ flags / 16 % 2 = 1 then 4 else 3) + n

/-- wire size of one input attribute towards a peer with / without 4-octet AS support (the down-converted
    AS_PATH / AGGREGATOR keep the stored flags, AS4_PATH / AS4_AGGREGATOR are new attributes) -/
def attrWireSize (two : Bool) (a : Attr) : Nat :=
  let n := (wireValue a).length
  if two ∧ a.code = 2 then
    match parseSegs 4 (wireValue a) with
    | some segs =>
        let small := segs.foldl (fun acc s => acc + 2 + 2 * s.2.length) 0
        let wide := segs.any (fun s => s.2.any (· > 65535))
        let as4 := (segs.filter (fun s => s.1 ≠ 3 ∧ s.1 ≠ 4)).foldl (fun acc s => acc + 2 + 4 * s.2.length) 0
        tlvSize a.flags small + (if wide then tlvSize 0 as4 else 0)
    | none => tlvSize a.flags n
  else if two ∧ a.code = 7 then
    tlvSize a.flags 6 + (if beNat ((wireValue a).take 4) > 65535 then tlvSize 0 8 else 0)
  else tlvSize a.flags n

/-- does the NLRI have a wire form at all?  Decided from the input (`wire`, see `Codec.hasWireForm`: a label stack
    whose bit count exceeds the length octet has none), never from what the encoder under test did with it. -/
def entryEncodable (e : Entry) : Bool :=
  match e.nlri with
  | .opq _ _ info => info.wire
  | _ => true

/-- an NLRI that has a wire form but was refused by the encoder (probe ENC = `err`) -/
def entryRefused (e : Entry) : Bool :=
  match e.nlri with
  | .opq .err _ info => info.wire
  | _ => false

def entryWireSize (addpath : Bool) (e : Entry) : Nat :=
  (if addpath then 4 else 0) +
  (match e.nlri with
   | .ip _ _ mask => 1 + ceil8 mask
   | .opq (.ok b) _ _ => b.length
   | .opq _ _ _ => 0)

def capWireSize : Cap → Nat
  | .mp _ => 6 | .rr => 2 | .em => 2 | .err => 2 | .as4 _ => 6
  | .enh l => 2 + 6 * l.length
  | .gr _ _ l => 4 + 4 * l.length
  | .ap l => 2 + 4 * l.length
  | .llgr l => 2 + 7 * l.length
  | .fqdn h d => 4 + h.length + d.length
  | .unk _ b => 2 + b.length

/-- next-hop field of MP_REACH_NLRI: VPN families put an 8-byte RD before each address (RFC 4364 §4.3.2,
    RFC 4659 §3.2.1) -/
def nhWireSize (f : Fam) (nh : Option Nh) : Nat :=
  match nh with
  | none => 0
  | some n => n.bytes.length + (if isVpn f then 8 * ((n.bytes.length + 15) / 16) else 0)

/-- bytes of a frame around its NLRI: header, section lengths, attribute block, MP attribute header -/
def frameBase (i : Input) : Nat :=
  match i.msg with
  | .reach f nh attrs es =>
      let attrsLen := (attrs.map (attrWireSize (!as4Both i.loc i.rem))).sum
      if f == Fam.ipv4 && !extNhNegotiated i then 23 + attrsLen + (if es.isEmpty then 0 else 7)
      else 23 + attrsLen + (4 + 3 + 1 + nhWireSize f nh + 1)
  | .unreach f _ => if f == Fam.ipv4 && !extNhNegotiated i then 23 else 23 + 4 + 3
  | _ => 19

/-- An encoding within the negotiated maximum exists: every entry has a wire form and fits a frame of its own
    (header, attribute block, section overhead, the entry); for OPEN the capability parameter fits its
    one-octet lengths.  (NOTIFICATION data is cut to fit, so it always encodes.) -/
def encodable (i : Input) : Bool :=
  match i.msg with
  | .open _ _ _ caps => caps.isEmpty || (caps.map capWireSize).sum + 2 ≤ 255
  | .reach f _ _ es =>
      frameBase i ≤ maxFrame i &&
      es.all (fun e => entryEncodable e && frameBase i + entryWireSize (addPathTx i f) e ≤ maxFrame i)
  | .unreach f es =>
      es.all (fun e => entryEncodable e && frameBase i + entryWireSize (addPathTx i f) e ≤ maxFrame i)
  | _ => true

/-- first failing clause of a sequence (each clause is only evaluated if the earlier ones passed) -/
def orElse' (a : Option String) (b : Unit → Option String) : Option String :=
  match a with
  | some s => some s
  | none => b ()

/-- framing: the stream is exactly `n` frames with marker, consistent header length, size ≤ negotiated maximum,
    the right type and mutually consistent inner length fields -/
def frameClause (i : Input) (n : Nat) (stream : Bytes) : Option String :=
  let (frames, rest) := splitFrames stream
  if !rest.isEmpty then some "stream-not-delimitable"
  else if frames.length ≠ n then some "frame-count-differs"
  else if frames.isEmpty then some "no-frame"
  else if !frames.all markerOk then some "bad-marker"
  else if frames.any (fun fr => fr.length > maxFrame i) then
    -- an oversize frame that carries no NLRI at all: the attribute block alone does not fit
    if expectedType i.msg = 2 ∧ frames.any (fun fr => fr.length > maxFrame i && !frameHasNlri fr)
    then some "frame-exceeds-max-no-nlri" else some "frame-exceeds-max"
  else if frames.any (fun fr => beNat ((fr.drop 18).take 1) ≠ expectedType i.msg) then some "wrong-message-type"
  else firstSome frames frameLengths

/-- a Flow Specification entry whose wire bytes are not a well-formed length + rule (RFC 8955 §4.1) -/
def entryFlowBad (e : Entry) : Bool :=
  match e.nlri with
  | .opq (.ok b) _ _ => !flowNlriFramed b
  | _ => false
def flowBad (f : Fam) (es : List Entry) : Bool := isFlowspecFam f && es.any entryFlowBad

/-- byte-level partition for the impl-only families: the MP NLRI regions of the frames concatenate to the
    wire bytes of the input entries -/
def opaqueClause (i : Input) (frames : List Bytes) : Option String :=
  match i.msg with
  | .reach f _ _ es | .unreach f es =>
      if flowBad f es then some "flowspec-nlri-length-inconsistent" else
      (match opaqueRegion (addPathTx i f) es with
       | some want =>
           let got := frames.flatMap (fun fr =>
             match updateSections (fr.drop 19) with
             | some sec => ((tlvs sec.attrs).1.filter (fun r => r.code = 14 ∨ r.code = 15)).flatMap mpRegion
             | none => [])
           if got == want then none
           else if got.length < want.length then
             (if frames.any (fun fr => !frameHasNlri fr) then some "entries-dropped-at-empty-frame" else some "entries-dropped")
           else some "nlri-bytes-differ"
       | none => none)
  | _ => none

/-- the peer decoded every frame -/
def decodeClause (dec : List DRes) (nframes : Nat) : Option String :=
  match dec.find? (fun d => (isMsg d).isNone) with
  | some (.err c s) => some s!"peer-decode-error-{c}-{s}"
  | some (.short _) => some "peer-decode-incomplete"
  | some _ => some "peer-decode-panic"
  | none => if (dec.filterMap isMsg).length ≠ nframes then some "decoded-count-differs" else none

/-- what the peer decoded is what was sent -/
def contentClause (i : Input) (frames : List Bytes) (ps : List Parsed) : Option String :=
  let content : Option String :=
    match i.msg with
    | .open a h r caps =>
        if ps == [.open a h r (caps.map canonCap)] then none else some "open-differs"
    | .notif c s d => if ps == [.notif c s (d.take (maxFrame i - 21))] then none else some "notification-differs"
    | .keepalive => if ps == [.keepalive] then none else some "keepalive-differs"
    | .rr f => if ps == [.rr f] then none else some "route-refresh-differs"
    | .eor f => if ps == [.eor f] then none else some "end-of-rib-differs"
    | .reach f nh attrs es => checkUpdate i f true nh attrs es ps
    | .unreach f es => checkUpdate i f false none [] es ps
  match content with
  | some s =>
      -- entries went missing and one frame carries no NLRI: the "zero entries fit" exit of the chunk loop
      if s == "entries-dropped" && frames.any (fun fr => !frameHasNlri fr) then some "entries-dropped-at-empty-frame"
      else some s
  | none => none

/-- the fixed-point probe must have run and succeeded (`na` = something decoded was not clean: the earlier clauses
    catch every such case, so `na` is never acceptable here) -/
def fpClause : Fp → Option String
  | .t => none
  | .na => some "fixed-point-not-run"
  | .f => some "fixed-point-differs"
  | .panic => some "fixed-point-panic"

/-- the clause that fails, if any (before the `encodable` classification) -/
def checkClause0 (i : Input) (o : Obs) : Option String :=
  match o with
  | .panic => some "panic"
  | .err =>
      -- an encodable input was refused: a valid NLRI that the encoder does not encode, or the recorded cause
      -- F4d (the 12 padding bytes of an IPv4 next hop inside MP_REACH are what makes some entry not fit)
      some (match i.msg with
        | .reach f nh _ es =>
            if es.any entryRefused then "valid-entry-refused"
            else match nh with
              | some (.v4 _) =>
                  if !(f == Fam.ipv4 && !extNhNegotiated i) && paddedNhFam f &&
                     es.any (fun e => frameBase i + 12 + entryWireSize (addPathTx i f) e > maxFrame i)
                  then "encode-error-ipv4-in-mp-reach" else "encode-error"
              | _ => "encode-error"
        | .unreach _ es => if es.any entryRefused then "valid-entry-refused" else "encode-error"
        | _ => "encode-error")
  | .obs n stream dec fp =>
    let frames := (splitFrames stream).1
    orElse' (frameClause i n stream) fun _ =>
    orElse' (opaqueClause i frames) fun _ =>
    orElse' (decodeClause dec frames.length) fun _ =>
    orElse' (contentClause i frames (dec.filterMap isMsg)) fun _ =>
    fpClause fp

/-- the clause that fails, if any -/
def checkClause (i : Input) (o : Obs) : Option String :=
  if !buildable i then none
  else if encodable i then checkClause0 i o
  else
    -- no encoder can satisfy the property on this input: the only acceptable outcome is a refusal
    match o with
    | .err => none
    | _ => (checkClause0 i o).map (fun _ => "unencodable-input-accepted")

def check (i : Input) (o : Obs) : Verdict :=
  match checkClause i o with
  | none => .ok
  | some s => .fail s

/-- clauses whose classification depends on the address family (frame size / entry bookkeeping) -/
def famClause (c : String) : Bool :=
  c == "panic" || c == "frame-exceeds-max" || c == "valid-entry-refused" || (c.startsWith "entries-" && c != "entries-dropped-at-empty-frame") ||
  c == "nlri-bytes-differ" ||
  c == "path-ids-differ" || c.startsWith "peer-decode-" || c == "stream-not-delimitable" ||
  c == "update-lengths-inconsistent" || c == "mp-lengths-inconsistent" || c == "frame-count-differs"

/-- the line printed by the oracle -/
def verdictStr (i : Input) : Verdict → String
  | .ok => "ok"
  | .fail c => s!"fail kind={kindName i.msg}{if famClause c then famName i.msg else ""} clause={c}"

end Rbgp.Enc.Spec
