/-
  Rbgp.Enc.Props — C04: "encoded BGP messages are well-framed and decode to the same routes at the peer".

  Statements only; proofs are `exact`s to lemmas of `Rbgp/Enc/Proofs*.lean`.  Everything is about the model
  `Rbgp.Enc.Model` (encoder) / `Rbgp.Enc.Reader` (peer decoder) / `Rbgp.Enc.Run`, which the correspondence
  stream ties to packet/src/bgp.rs.  `Dom` is the decidable domain of the master theorem (see `Proofs.lean`);
  what it excludes is listed with witnesses at the end (`*_full` statements and their refutations) and in
  known-findings.json.  The frame bound and the "never drops a prefix" theorem hold for EVERY input
  (`encode_frame_bound_all`, `encode_never_drops`): the encoder measures each NLRI and refuses what cannot fit.
-/
import Rbgp.Enc.Proofs
import Rbgp.Enc.Proofs.AsPath
import Rbgp.Enc.Proofs.NegAgree
import Rbgp.Enc.Proofs.Progress
import Rbgp.Enc.Proofs.Structs
namespace Rbgp.Enc.Props
open Rbgp.Enc Rbgp.Enc.Spec

/-! ## master theorem -/

/-- The C04 reference checker accepts every run of the model on `Dom`, in the debug and in the release
    arithmetic profile. -/
theorem check_run_ok (p : Profile) (i : Input) (h : Dom i = true) : check i (run p i) = .ok :=
  Rbgp.Enc.check_run_ok p i h

/-- **The two codecs agree with the RFC reading of the capability sets** (RFC 5492 / 7911 / 8950): for simple
    capability sets and a family with the MP capability on both sides, the family is in the peer's table, the
    encoder's add-path-tx is "local can send, remote can receive" and the extended-next-hop flag is the RFC 8950
    one.  (This is why `Dom` needs no hypothesis about `negotiate`.) -/
theorem negotiate_agrees (i : Input) (f : Fam) (hl : simpleCaps i.loc = true) (hr : simpleCaps i.rem = true)
    (hf : famNegotiated i f = true) : negAgree i f = true :=
  negAgree_of i f hl hr hf

/-- the decoder's codec is the encoder's mirror image: same frame limit, same AS width, rx = the sender's tx -/
theorem codecs_mirror (l r : List Cap) (f : Fam) (h : (rxOf (negotiate r l) f).isSome = true) :
    (negotiate r l).maxLen = (negotiate l r).maxLen ∧ (negotiate r l).twoByte = (negotiate l r).twoByte ∧
    rxOf (negotiate r l) f = some ((negotiate l r).addpathTx f) :=
  ⟨negotiate_maxLen_comm l r, negotiate_twoByte_comm l r, (codecPair l r f h).hrx⟩

/-! ## property-level theorems -/

/-- **Frames respect the negotiated maximum and are mutually consistent.**  On `Dom` the run is an observation
    whose byte stream splits (by the header length fields alone) into exactly the `n` frames written, each with
    the marker, at most the negotiated maximum size (4096 / 65535), the right type, and inner length fields
    (withdrawn / attribute / MP lengths, OPEN parameter and capability lengths) that the structural reader
    finds consistent. -/
theorem encode_lengths_consistent (p : Profile) (i : Input) (h : Dom i = true) :
    ∃ n s dec, run p i = .obs n s dec .t ∧
      (splitFrames s).2 = [] ∧ (splitFrames s).1.length = n ∧ (splitFrames s).1 ≠ [] ∧
      ∀ fr ∈ (splitFrames s).1, markerOk fr = true ∧ fr.length ≤ maxFrame i ∧
        beNat ((fr.drop 18).take 1) = expectedType i.msg ∧ frameLengths fr = none := by
  obtain ⟨hok, n, s, dec, hrun⟩ := check_run_ok' p i h
  obtain ⟨hb, henc⟩ := Dom_buildable i h
  rw [hrun] at hok
  obtain ⟨hf, _⟩ := check_ok_clauses i n s dec .t hb henc hok
  exact ⟨n, s, dec, hrun, frameClause_none i n s hf⟩

/-- **Frame bound of the "one more entry fits" loop** (`put_entries`), unconditional: once an entry has been taken,
    the frame plus the `tail` octets still to be written stays within `max` — whatever the entries' sizes. -/
theorem encode_frame_bound (max tail : Nat) (ap : Bool) (cur : Nat) (es : List Entry)
    (hpos : 0 < fitN max tail ap cur es) :
    cur + ((es.take (fitN max tail ap cur es)).flatMap (encE ap)).length + tail ≤ max :=
  fitN_bound max tail ap cur es hpos

/-- The fit loop is what `put_entries` runs (no entry's own encoder panicking or refusing). -/
theorem fitLoop_is_fitN (max tail : Nat) (ap : Bool) (cur : Nat) (es : List Entry) (h : EncOk es) :
    fitLoop max tail ap cur es =
      .ok ((es.take (fitN max tail ap cur es)).flatMap (encE ap), fitN max tail ap cur es) :=
  fitLoop_eq max tail ap cur es h

/-- **No frame without progress**: `put_entries` never returns a zero count for a non-empty list (it returns
    `Err` instead), for any entries. -/
theorem put_entries_progress (max tail : Nat) (ap : Bool) (cur : Nat) (es : List Entry) (nb : Bytes) (n : Nat)
    (h : putEntries max tail ap cur es = .ok (nb, n)) (hes : es ≠ []) : n ≠ 0 :=
  putEntries_pos max tail ap cur es nb n h hes

/-- **Every frame respects the negotiated maximum, for every input**: whatever message, codec and profile, a frame
    returned by `do_encode` is at most `max_message_length()` long. -/
theorem encode_frame_bound_all (p : Profile) (c : Codec) (m : Msg) (es : List Entry) (fr : Bytes) (n : Nat)
    (h : doEncode p c m es = .ok (fr, n)) : fr.length ≤ c.maxLen :=
  doEncode_frame_le p c m es fr n h

/-- **Splitting never drops, duplicates or reorders an entry — for every input.**  Whenever `encode_to` returns
    `Ok` (any message, any codec, either profile), the slices of the entry list given by the per-frame counts
    concatenate to the entry list, and every frame is within the negotiated maximum. -/
theorem encode_never_drops (p : Profile) (c : Codec) (m : Msg) (frames : List (Bytes × Nat))
    (h : encodeTo p c m = .ok frames) :
    (slices m.entries (frames.map (·.2))).flatten = m.entries ∧ ∀ x ∈ frames, x.1.length ≤ c.maxLen :=
  encodeTo_partition p c m frames h

/-- The generic chunk loop: if every iteration makes progress then the per-frame entry slices concatenate to the
    input, and `slices` of the counts the loop returns are those slices. -/
theorem chunks_partition_entries (N : List Entry → Nat) (hpos : ∀ r, r ≠ [] → N r ≠ 0) (es : List Entry) :
    (chunksG (fun r => r.take (N r)) N es).flatten = es ∧
    slices es (chunksG N N es) = chunksG (fun r => r.take (N r)) N es :=
  ⟨chunkSlices_flatten N hpos es, chunksG_counts N es⟩

/-- `encode_to`'s loop is `chunksG` over what `do_encode` returns. -/
theorem encodeLoop_is_chunks (p : Profile) (c : Codec) (m : Msg) (F : List Entry → Bytes) (N : List Entry → Nat)
    (S : List Entry → Prop) (hdrop : ∀ r n, S r → S (r.drop n))
    (hdo : ∀ r, r ≠ [] → S r → doEncode p c m r = .ok (F r, N r)) (es : List Entry) (hS : S es) :
    encodeLoop p c m es = .ok (chunksG (fun r => (F r, N r)) N es) :=
  encodeLoop_eq p c m F N S hdrop hdo es hS

/-- **UPDATE round trip.**  On `Dom`, for an announcement or a withdrawal, the peer decodes every frame and the
    decoded entries are the input (prefix, path-id) multiset, with the input's next hop and attributes (up to the
    extended-length flag) on every announcement frame. -/
theorem roundtrip_update (p : Profile) (i : Input) (h : Dom i = true) :
    ∃ n s dec, run p i = .obs n s dec .t ∧
      decodeClause dec (splitFrames s).1.length = none ∧
      contentClause i (splitFrames s).1 (dec.filterMap isMsg) = none := by
  obtain ⟨hok, n, s, dec, hrun⟩ := check_run_ok' p i h
  obtain ⟨hb, henc⟩ := Dom_buildable i h
  rw [hrun] at hok
  obtain ⟨_, _, hd, hc, _⟩ := check_ok_clauses i n s dec .t hb henc hok
  exact ⟨n, s, dec, hrun, hd, hc⟩

/-- **OPEN round trip**, side condition: the capability block fits the one-octet lengths (≤ 253 bytes). -/
theorem roundtrip_open (p : Profile) (c : Codec) (asn hold rid : Nat) (caps : List Cap)
    (hasn : asn < 4294967296) (hhold : hold < 65536) (hh12 : hold ≠ 1 ∧ hold ≠ 2)
    (hrid : rid < 4294967296) (hr0 : rid ≠ 0 ∧ rid ≠ 4294967295 ∧ rid / 268435456 ≠ 14)
    (hcaps : ∀ x ∈ caps, capOk x = true) (hs : (caps.flatMap capBytes).length + 2 < 256)
    (hrec : if asn > 65535 ∨ asn = TRANS_ASN then lastAs4? caps = some asn else True) :
    doEncode p c (.open asn hold rid caps) [] = .ok (frame 1 (openBody asn hold rid caps), 0) ∧
    parseOpen (frame 1 (openBody asn hold rid caps)) = .msg (.open asn hold rid (caps.map canonCap)) :=
  ⟨doEncode_open p c asn hold rid caps [] hcaps hs,
   parseOpen_enc asn hold rid caps hasn hhold hh12 hrid hr0 hcaps hs hrec⟩

/-- **KEEPALIVE / NOTIFICATION / ROUTE-REFRESH / End-of-RIB round trips**: on their domain (`buildable`,
    `encodable`; for End-of-RIB the family negotiated) the checker accepts the run and the fixed-point probe
    succeeds. -/
theorem roundtrip_small (p : Profile) (i : Input) (h : domSmall i = true) :
    check i (run p i) = .ok ∧ ∃ n s dec, run p i = .obs n s dec .t :=
  master_small p i h

theorem roundtrip_keepalive (p : Profile) (i : Input) (hm : i.msg = .keepalive) (hb : buildable i = true) :
    check i (run p i) = .ok := by
  have : domSmall i = true := by simp [domSmall, hm, hb, encodable]
  exact (master_small p i this).1

theorem roundtrip_refresh (p : Profile) (i : Input) (f : Fam) (hm : i.msg = .rr f) (hb : buildable i = true) :
    check i (run p i) = .ok := by
  have : domSmall i = true := by simp [domSmall, hm, hb, encodable]
  exact (master_small p i this).1

/-- NOTIFICATION: any data length (the data is cut to what fits the negotiated maximum, and the checker expects
    exactly that) -/
theorem roundtrip_notification (p : Profile) (i : Input) (c s : Nat) (d : Bytes) (hm : i.msg = .notif c s d)
    (hb : buildable i = true) :
    check i (run p i) = .ok := by
  have : domSmall i = true := by simp [domSmall, hm, hb, encodable]
  exact (master_small p i this).1

/-! ## Flow Specification NLRI length (RFC 8955 §4.1): the two length forms -/

theorem lor_240 : ∀ k, k < 16 → Nat.lor 240 k = 240 + k := by decide

/-- **`read_nlri_len ∘ write_nlri_len = id` on 0 … 4095**, with the form (one octet below 240, two octets from
    240 on) the RFC prescribes. -/
theorem flowspec_len_roundtrip (n : Nat) (h : n ≤ 4095) (rest : Bytes) :
    readFlowNlriLen (flowNlriLen n ++ rest) = some (n, if n < 240 then 1 else 2) := by
  unfold flowNlriLen
  by_cases h1 : n < 240
  · simp [h1, readFlowNlriLen]
  · have hk : n / 256 % 256 = n / 256 := Nat.mod_eq_of_lt (by omega)
    have hl := lor_240 (n / 256) (by omega)
    simp only [h1, if_false, hk, hl, List.cons_append, List.nil_append, readFlowNlriLen]
    have h2 : ¬ (240 + n / 256 < 240) := by omega
    simp only [h2, if_false]
    congr 2
    omega

/-- **A rule of at most 4095 octets is written as a well-framed NLRI** (length in the right form, followed by exactly
    that many octets), **a longer one is refused** (`Nlri::put_flowspec`). -/
theorem flowspec_nlri_framed (body : Bytes) :
    (body.length ≤ 4095 → putFlowspec body = .ok (flowNlriLen body.length ++ body) ∧
        flowNlriFramed (flowNlriLen body.length ++ body) = true) ∧
    (body.length > 4095 → putFlowspec body = .err) := by
  have hlen : (flowNlriLen body.length).length = if body.length < 240 then 1 else 2 := by
    unfold flowNlriLen; split <;> rfl
  refine ⟨fun h => ⟨?_, ?_⟩, fun h => ?_⟩
  · unfold putFlowspec
    simp only [List.length_append, hlen]
    split <;> simp <;> omega
  · unfold flowNlriFramed
    rw [flowspec_len_roundtrip _ h]
    simp only [List.length_append, hlen]
    have hd : (flowNlriLen body.length ++ body).drop (if body.length < 240 then 1 else 2) = body := by
      rw [← hlen]; exact List.drop_left' rfl
    rw [hd]
    split <;> simp <;> omega
  · unfold putFlowspec
    simp only [List.length_append, hlen]
    have : ¬ body.length < 240 := by omega
    simp [this]; omega

/-- without the refusal: the length of a 4096-octet rule does not survive `write_nlri_len` (it reads back as 0) -/
theorem flowspec_len_4096 (rest : Bytes) : readFlowNlriLen (flowNlriLen 4096 ++ rest) = some (0, 2) := by
  have h : flowNlriLen 4096 = [240, 0] := by decide +kernel
  rw [h]
  rfl

/-- **Attributes towards a 2-octet-AS peer (RFC 6793), whole block.**  For well-formed input attributes with distinct
    codes whose AS_PATH is carriable (`Carriable`: the two protocol limits F4e3 / F4e4 excluded — they are hypotheses,
    see `witness_confed_tail`), the peer's attribute loop followed by `reconcile_as4` returns, for every input attribute,
    the same code and value with the flags as on the wire (`fin2`): AS_PATH from the down-converted AS_PATH + AS4_PATH,
    AGGREGATOR from the down-converted AGGREGATOR + AS4_AGGREGATOR, everything else unchanged. -/
theorem two_octet_attributes_roundtrip (attrs : List Attr) (hok : AttrsOk attrs) (hcar : ∀ a ∈ attrs, Carriable a) :
    reconcileAs4 (attrs.flatMap pre2) = attrs.map fin2 ∧
    (∀ a ∈ attrs, (fin2 a).code = a.code ∧ (fin2 a).data = a.data ∧ canonAttr (fin2 a) = canonAttr a) :=
  ⟨reconcile_pre2 attrs hok hcar, fun a _ => ⟨fin2_code a, by rw [fin2_eq], canonAttr_fin2 a⟩⟩

/-- what `encodeAttrs` writes towards a 2-octet-AS peer and its size (= the Spec's `attrWireSize true`) -/
theorem two_octet_attribute_block (p : Profile) (attrs : List Attr) (h : ∀ a ∈ attrs, attrOk a = true)
    (hsz : (attrBlock2 attrs).length < 65536) :
    encodeAttrs p true attrs 0 = .ok (attrBlock2 attrs, (attrBlock2 attrs).length) ∧
    (attrBlock2 attrs).length = (attrs.map (attrWireSize true)).sum := by
  refine ⟨?_, attrBlock2_length attrs h⟩
  have := encodeAttrs_two p attrs 0 h (by omega)
  simpa using this

/-- **AS4 round trip**, exact condition in the statement: no AS number above 65535, or the confederation
    segments lead the path and hold no such number (what RFC 6793 §4.2.3 can carry). -/
theorem as4_roundtrip (segs : List Seg) (hok : SegsOk 4 segs)
    (hcond : hasWideSegs segs = true → confedLeading segs = true) :
    let b := encSegs 4 segs
    ∃ d, asPathDowngrade b = .ok d ∧
      ∃ up, parseSegs 2 d = some up ∧
        (if asPathHasWide b then asPathReconcile (encSegs 4 up) (asPathStripConfed b) else encSegs 4 up) = b :=
  Rbgp.Enc.as4_roundtrip segs hok hcond

/-- **decode ∘ encode is a fixed point on decoded values**: on `Dom` the fixed-point probe of the run (re-encode
    every value the peer decoded, decode again, compare) succeeds. -/
theorem decode_encode_fixed_point (p : Profile) (i : Input) (h : Dom i = true) :
    ∃ n s dec, run p i = .obs n s dec .t :=
  (check_run_ok' p i h).2

/-- the same for one frame of a frame family: the decoded value re-encodes to a stream that decodes to itself -/
theorem decode_encode_fixed_point_frame {p : Profile} {loc rem : List Cap} {m : Msg} (U : UpdFamFp p loc rem m)
    (r : List Entry) (hr : r ≠ []) (hS : U.S r) :
    reTrip p loc rem (toMsgs (U.Q r) (r.take (U.N r))) = .ok [.msg (U.Q r)] :=
  U.reTrip_eq r hr hS

/-! ## non-vacuity: concrete inputs in `Dom` (one per message kind / encoding path) -/

def origin : Attr := ⟨1, 64, .val 0⟩
def aspath : Attr := ⟨2, 64, .bin [2, 2, 0, 0, 253, 233, 0, 1, 17, 112]⟩       -- AS_SEQUENCE 65001 70000
def comm : Attr := ⟨8, 208, .bin [0, 1, 0, 2]⟩                                 -- stored with the EXTENDED bit
def caps4 (asn : Nat) : List Cap := [.mp Fam.ipv4, .mp Fam.ipv6, .as4 asn, .ap [(Fam.ipv6, 3)]]

/-- legacy IPv4 announcement -/
def exReachLegacy : Input :=
  ⟨caps4 65001, caps4 65002,
   .reach Fam.ipv4 (some (.v4 [192, 0, 2, 1])) [origin, aspath, ⟨5, 64, .val 100⟩, comm]
     [⟨.ip false [10, 0, 0, 0] 8, 0⟩, ⟨.ip false [10, 1, 2, 128] 25, 0⟩]⟩
/-- IPv6 announcement with add-path and a link-local next hop -/
def exReachMp : Input :=
  ⟨caps4 65001, caps4 65002,
   .reach Fam.ipv6 (some (.v6ll [32, 1, 13, 184, 0, 0, 0, 0, 0, 0, 0, 0, 0, 0, 0, 1] [254, 128, 0, 0, 0, 0, 0, 0, 0, 0, 0, 0, 0, 0, 0, 1]))
     [origin, aspath] [⟨.ip true [32, 1, 13, 184, 0, 1, 0, 0, 0, 0, 0, 0, 0, 0, 0, 0] 48, 7⟩,
                       ⟨.ip true [32, 1, 13, 184, 0, 1, 0, 0, 0, 0, 0, 0, 0, 0, 0, 0] 48, 9⟩]⟩
def exUnreachLegacy : Input :=
  ⟨caps4 65001, [.mp Fam.ipv4], .unreach Fam.ipv4 [⟨.ip false [10, 0, 0, 0] 8, 0⟩, ⟨.ip false [10, 1, 2, 0] 24, 0⟩]⟩
def exUnreachMp : Input :=
  ⟨caps4 65001, caps4 65002, .unreach Fam.ipv6 [⟨.ip true [32, 1, 13, 184, 0, 1, 0, 0, 0, 0, 0, 0, 0, 0, 0, 0] 48, 7⟩]⟩
def exOpen : Input :=
  ⟨caps4 65001, caps4 65002,
   .open 4200000001 90 3232235777
     [.mp Fam.ipv4, .rr, .as4 4200000001, .em, .ap [(Fam.ipv4, 3)], .enh [(Fam.ipv4, 2)], .gr 8 120 [(Fam.ipv4, 128)],
      .llgr [(Fam.ipv4, 128, 3600)], .fqdn [82, 49] [69, 88], .err, .unk 200 [1, 2]]⟩
def exNotif : Input := ⟨caps4 65001, caps4 65002, .notif 2 4 [2, 6, 1, 4]⟩
def exEor : Input := ⟨caps4 65001, caps4 65002, .eor Fam.ipv6⟩
def exKeepalive : Input := ⟨caps4 65001, caps4 65002, .keepalive⟩
def exRefresh : Input := ⟨caps4 65001, caps4 65002, .rr Fam.ipv6⟩

example : Dom exReachLegacy = true := by decide +kernel
example : Dom exReachMp = true := by decide +kernel
example : Dom exUnreachLegacy = true := by decide +kernel
example : Dom exUnreachMp = true := by decide +kernel
example : Dom exOpen = true := by decide +kernel
example : Dom exNotif = true := by decide +kernel
example : Dom exEor = true := by decide +kernel
example : Dom exKeepalive = true := by decide +kernel
example : Dom exRefresh = true := by decide +kernel

/-- IPv4 multicast with its ordinary IPv4 next hop (written as is inside MP_REACH_NLRI) -/
def exMulticastV4 : Input :=
  ⟨[.mp ⟨1, 2⟩, .as4 65001], [.mp ⟨1, 2⟩, .as4 65002],
   .reach ⟨1, 2⟩ (some (.v4 [192, 0, 2, 1])) [origin, aspath]
     [⟨.ip false [224, 0, 1, 0] 24, 0⟩, ⟨.ip false [232, 1, 0, 0] 16, 0⟩]⟩
/-- a legacy withdrawal of 1000 /32 prefixes: 5 bytes each, two frames on a 4096-byte session -/
def exSplitUnreach : Input :=
  ⟨caps4 65001, caps4 65002,
   .unreach Fam.ipv4 ((List.range 1000).map (fun k => ⟨.ip false [10, 0, k / 256, k % 256] 32, 0⟩))⟩
/-- an IPv6 announcement of 400 /128 prefixes with path ids (21 bytes each): three frames -/
def exSplitReach : Input :=
  ⟨caps4 65001, caps4 65002,
   .reach Fam.ipv6 (some (.v6 [32, 1, 13, 184, 0, 0, 0, 0, 0, 0, 0, 0, 0, 0, 0, 1])) [origin, aspath, comm]
     ((List.range 400).map (fun k => ⟨.ip true [32, 1, 13, 184, 0, 1, 0, 0, 0, 0, 0, 0, 0, 0, k / 256, k % 256] 128, 1 + k % 3⟩))⟩
/-- the same announcement towards a peer WITHOUT 4-octet AS support (RFC 6793 down-conversion, inside `Dom`):
    AS_PATH with a wide AS, AGGREGATOR with a wide AS, three frames -/
def ex2ByteSplit : Input :=
  ⟨caps4 65001, [.mp Fam.ipv4, .mp Fam.ipv6, .ap [(Fam.ipv6, 3)]],
   .reach Fam.ipv6 (some (.v6 [32, 1, 13, 184, 0, 0, 0, 0, 0, 0, 0, 0, 0, 0, 0, 1]))
     [origin, aspath, ⟨7, 192, .bin [0, 1, 17, 112, 192, 0, 2, 1]⟩, comm]
     ((List.range 400).map (fun k => ⟨.ip true [32, 1, 13, 184, 0, 1, 0, 0, 0, 0, 0, 0, 0, 0, k / 256, k % 256] 128, 1 + k % 3⟩))⟩

example : Dom exMulticastV4 = true := by decide +kernel

/-- number of frames of a run -/
def framesOf : Obs → Nat
  | .obs n _ _ _ => n
  | _ => 0

set_option maxRecDepth 1000000 in
/-- `Dom` contains inputs that are split over several frames (the master theorem is not only about one-frame runs) -/
theorem dom_examples_multiframe :
    Dom exSplitUnreach = true ∧ framesOf (run .release exSplitUnreach) = 2 ∧
    Dom exSplitReach = true ∧ framesOf (run .debug exSplitReach) = 3 ∧
    check exSplitReach (run .debug exSplitReach) = .ok := by
  decide +kernel

set_option maxRecDepth 1000000 in
/-- whole announcements towards a 2-octet-AS peer are inside `Dom` (unless the AS_PATH hits one of the two RFC 6793
    limits): this one (wide AS in AS_PATH and AGGREGATOR, three frames) is in `Dom`, and — independently of the master
    theorem — the kernel evaluates the checker's verdict on it in both profiles (the recorded limit:
    `witness_confed_tail`, outside `Dom`) -/
theorem two_octet_peer_example :
    Dom ex2ByteSplit = true ∧ framesOf (run .debug ex2ByteSplit) = 3 ∧
    check ex2ByteSplit (run .debug ex2ByteSplit) = .ok ∧ check ex2ByteSplit (run .release ex2ByteSplit) = .ok := by
  decide +kernel

/-- the side condition of `roundtrip_open` holds for the capability set of `exOpen` -/
example : (([.mp Fam.ipv4, .rr, .as4 4200000001, .em, .ap [(Fam.ipv4, 3)], .gr 8 120 [(Fam.ipv4, 128)]] : List Cap).flatMap capBytes).length + 2 < 256 := by
  decide +kernel

/-- the condition of `as4_roundtrip` is satisfiable with a wide AS behind leading confederation segments -/
example : SegsOk 4 [(3, [65010]), (2, [65001, 70000])] ∧
    (hasWideSegs [(3, [65010]), (2, [65001, 70000])] = true → confedLeading [(3, [65010]), (2, [65001, 70000])] = true) := by
  refine ⟨?_, fun _ => by decide⟩
  intro s hs
  simp only [List.mem_cons, List.not_mem_nil, or_false] at hs
  rcases hs with rfl | rfl
  · exact ⟨by decide, fun a ha => by simp at ha; subst ha; decide⟩
  · refine ⟨by decide, ?_⟩
    intro a ha
    simp only [List.mem_cons, List.not_mem_nil, or_false] at ha
    rcases ha with rfl | rfl <;> decide

/-! ## NLRI codecs of further families: VPN-IPv4/IPv6, labeled unicast, Flow Specification, EVPN

The model encodes and decodes these NLRIs itself (`NStruct.encode`, `NStruct.decodeLike`) when the case carries their
structure; the theorems say decode ∘ encode = id on the well-formed values (`NStruct.Wf`), function level: the framing
and splitting around them is covered by the unconditional chunk-loop theorems, the whole-message master theorem stays on
the IPv4/IPv6 families. -/

/-- a label stack of any depth reads back (labels below 2^20, bottom-of-stack bit on the last) -/
theorem label_stack_roundtrip (ls : List Nat) (rest : Bytes) (hne : ls ≠ []) (hl : ∀ l ∈ ls, l < 1048576) :
    readLabels (stackBytes ls ++ rest).length (stackBytes ls ++ rest) = some (ls, rest) :=
  readLabels_stack ls rest hne hl _ (by simp [stackBytes_length]; omega)

/-- VPN-IPv4 / VPN-IPv6 NLRI (RFC 4364 §4.3.4, RFC 4659 §3.2), multi-label stacks: decode ∘ encode = id -/
theorem vpn_nlri_roundtrip (ls : List Nat) (rd : Rd) (addr : Bytes) (mask : Nat) (wd : Bool)
    (hne : ls ≠ []) (hl : ∀ l ∈ ls, l < 1048576) (hrd : RdOk rd) (hm : mask ≤ 8 * addr.length)
    (hc : AddrCanon addr mask) (hb : 24 * ls.length + 64 + mask ≤ 255) :
    ∃ bs, (NStruct.vpn ls rd addr mask).encode wd = .ok bs ∧ bs.length = 1 + 3 * ls.length + 8 + ceil8 mask ∧
      vpnDecode addr.length bs = some (.vpn ls rd addr mask) :=
  Rbgp.Enc.vpn_nlri_roundtrip ls rd addr mask wd hne hl hrd hm hc hb

/-- labeled unicast NLRI in MP_REACH_NLRI (RFC 8277 §2.2 / §2.3), multi-label stacks: decode ∘ encode = id -/
theorem labeled_nlri_roundtrip (ls : List Nat) (addr : Bytes) (mask : Nat)
    (hne : ls ≠ []) (hl : ∀ l ∈ ls, l < 1048576) (hm : mask ≤ 8 * addr.length)
    (hc : AddrCanon addr mask) (hb : 24 * ls.length + mask ≤ 255) :
    ∃ bs, (NStruct.lab ls addr mask).encode false = .ok bs ∧ bs.length = 1 + 3 * ls.length + ceil8 mask ∧
      labDecode addr.length true bs = some (.lab ls addr mask) :=
  Rbgp.Enc.labeled_nlri_roundtrip ls addr mask hne hl hm hc hb

/-- a withdrawn labeled prefix (RFC 8277 §2.4: compatibility field 0x800000) reads back as the same prefix -/
theorem labeled_withdraw_roundtrip (ls : List Nat) (addr : Bytes) (mask : Nat) (hm : mask ≤ 8 * addr.length)
    (hc : AddrCanon addr mask) (hb : 24 + mask ≤ 255) :
    ∃ bs, (NStruct.lab ls addr mask).encode true = .ok bs ∧ bs.length = 4 + ceil8 mask ∧
      labDecode addr.length false bs = some (.lab [0] addr mask) :=
  Rbgp.Enc.labeled_withdraw_roundtrip ls addr mask hm hc hb

/-- more bits than the length octet can say: refused, never wrapped (repaired S7) -/
theorem label_nlri_too_long (ls : List Nat) (rd : Rd) (addr : Bytes) (mask : Nat) :
    (24 * ls.length + 64 + mask > 255 → (NStruct.vpn ls rd addr mask).encode false = .err) ∧
    (24 * ls.length + mask > 255 → (NStruct.lab ls addr mask).encode false = .err) :=
  Rbgp.Enc.label_nlri_too_long ls rd addr mask

/-- one Flow Specification operator (RFC 8955 §4.2.1.1): the value in 1 / 2 / 4 / 8 octets as its magnitude calls for,
    the length bits recomputed; `Op::decode ∘ Op::encode = id` -/
theorem flowspec_op_roundtrip (o : FOp) (rest : Bytes) (h : o.Wf) : readOp (o.bytes ++ rest) = some (o, rest) :=
  readOp_bytes o rest h

/-- Flow Specification rule (RFC 8955 §4 / RFC 8956 §3; with an RD: the VPN form): prefix components (IPv6: with
    offset), operator lists of any length, the length field in both forms: decode ∘ encode = id -/
theorem flowspec_rule_roundtrip (v6 : Bool) (rd : Option Rd) (cs : List FComp) (wd : Bool)
    (hcs : ∀ c ∈ cs, c.Wf v6) (hrd : ∀ r, rd = some r → RdOk r) (b : Bytes) (hb : compsBytes v6 cs = .ok b)
    (hlen : (if rd.isSome then 8 else 0) + b.length ≤ 4095) :
    ∃ bs, (NStruct.flow v6 rd cs).encode wd = .ok bs ∧ flowDecode v6 rd.isSome bs = some (.flow v6 rd cs) :=
  flow_nlri_roundtrip v6 rd cs wd hcs hrd b hb hlen

/-- a rule longer than the 12-bit length: refused (repaired F4i) -/
theorem flowspec_rule_too_long (v6 : Bool) (rd : Option Rd) (cs : List FComp) (wd : Bool) (b : Bytes)
    (hb : compsBytes v6 cs = .ok b) (hlen : (if rd.isSome then 8 else 0) + b.length > 4095) :
    (NStruct.flow v6 rd cs).encode wd = .err :=
  flow_nlri_too_long v6 rd cs wd b hb hlen

/-- EVPN NLRI, route types 1 - 5 (RFC 7432 §7.1 - §7.4, RFC 9136 §3.1): decode ∘ encode = id -/
theorem evpn_nlri_roundtrip (r : EvpnR) (wd : Bool) (h : r.Wf) :
    ∃ bs, (NStruct.evpn r).encode wd = .ok bs ∧ evpnDecode bs = some (.evpn r) :=
  Rbgp.Enc.evpn_nlri_roundtrip r wd h

/-- **all modelled NLRI codecs at once**, in the form the model run uses them -/
theorem nlri_codecs_roundtrip (s : NStruct) (wd : Bool) (h : s.Wf wd) :
    ∃ bs s', s.encode wd = .ok bs ∧ s.decodeLike (!wd) bs = some s' ∧ NStruct.equiv (!wd) s s' = true :=
  nstruct_roundtrip s wd h

/-- for entries with a well-formed structure the per-frame decoder parameter of the model run is the modelled codec,
    not a measurement, and returns every entry as sent -/
theorem struct_entries_decode_as_sent (ap : Bool) (es : List Entry) (h : ∀ e ∈ es, e.StructOk) :
    combineProbes ap es = .ents (es.map (fun e => ((if ap then e.pid else 0), true))) :=
  combineProbes_struct ap es h

def exVpn3 : NStruct := NStruct.vpn [534, 976, 589] ⟨0, 60154, 4097931553⟩ [208, 48, 0, 0] 16
def exVpn3Wire : Bytes := [152, 0, 33, 96, 0, 61, 0, 0, 36, 209, 0, 0, 234, 250, 244, 65, 121, 33, 208, 48]
def exLabWd : NStruct := NStruct.lab [534, 976, 589] [107, 219, 0, 0] 16
def exLabWdWire : Bytes := [40, 128, 0, 0, 107, 219]
def exFlowVpn : NStruct := NStruct.flow false (some ⟨0, 6771, 405094444⟩) [.pfx 1 24 0 [106, 186, 132, 0], .pfx 2 32 0 [202, 204, 30, 245], .num 3 [⟨129, 26⟩], .num 5 [⟨1, 124890⟩, ⟨129, 121575⟩]]
def exFlowVpnWire : Bytes := [33, 0, 0, 26, 115, 24, 37, 64, 44, 1, 24, 106, 186, 132, 2, 32, 202, 204, 30, 245, 3, 129, 26, 5, 33, 0, 1, 231, 218, 161, 0, 1, 218, 231]
def exEvpnMacIp : NStruct := NStruct.evpn (.macip ⟨1, 432237050, 11478⟩ [62, 9, 204, 171, 114, 221, 10, 151, 196, 190] 3653184520 [229, 8, 241, 109, 236, 207] [76, 226, 120, 47] 11792288 none)
def exEvpnMacIpWire : Bytes := [2, 37, 0, 1, 25, 195, 105, 250, 44, 214, 62, 9, 204, 171, 114, 221, 10, 151, 196, 190, 217, 191, 44, 8, 48, 229, 8, 241, 109, 236, 207, 32, 76, 226, 120, 47, 179, 239, 160]

/-- the modelled codecs on values of corpus/C04/seed-families-embedded-probes.case: the model writes exactly the
    octets measured on the real encoder, and reads them back -/
theorem nlri_codec_examples :
    exVpn3.encode false = .ok exVpn3Wire ∧ exVpn3.decodeLike true exVpn3Wire = some exVpn3 ∧
    exLabWd.encode true = .ok exLabWdWire ∧ (exLabWd.decodeLike false exLabWdWire).map (NStruct.equiv false exLabWd) = some true ∧
    exFlowVpn.encode false = .ok exFlowVpnWire ∧ exFlowVpn.decodeLike true exFlowVpnWire = some exFlowVpn ∧
    exEvpnMacIp.encode false = .ok exEvpnMacIpWire ∧ exEvpnMacIp.decodeLike true exEvpnMacIpWire = some exEvpnMacIp := by
  decide +kernel

/-- the hypotheses of `nlri_codecs_roundtrip` hold for these values -/
theorem nlri_codec_examples_wf :
    exVpn3.Wf false ∧ exLabWd.Wf true ∧ exFlowVpn.Wf false ∧ exEvpnMacIp.Wf false := by
  refine ⟨⟨by decide, by decide, Or.inl ⟨rfl, by decide, by decide⟩, by decide, by decide, by decide⟩,
    ⟨by decide, by decide, by decide⟩, ⟨?_, ?_, ?_⟩, ?_⟩
  · intro c hc
    simp only [List.mem_cons, List.not_mem_nil, or_false] at hc
    rcases hc with rfl | rfl | rfl | rfl
    · exact ⟨Or.inl rfl, rfl, by decide, by decide, rfl⟩
    · exact ⟨Or.inr rfl, rfl, by decide, by decide, rfl⟩
    · exact ⟨by decide, by decide, ⟨by decide, by decide, by decide⟩, by decide⟩
    · exact ⟨by decide, by decide, ⟨by decide, by decide, by decide⟩, by decide, ⟨by decide, by decide, by decide⟩, by decide⟩
  · intro r hr; cases hr; exact Or.inl ⟨rfl, by decide, by decide⟩
  · exact ⟨_, rfl, by decide⟩
  · exact ⟨Or.inr ⟨Or.inl rfl, by decide, by decide⟩, by decide, by decide, by decide, by decide, by decide,
      fun l hl => by cases hl⟩

/-! ## full-strength statements that do NOT hold, with the witnesses (= replay cases of corpus/C04) -/

/-- the AS4 round trip without its condition -/
def as4_roundtrip_full : Prop :=
  ∀ segs : List Seg, SegsOk 4 segs →
    let b := encSegs 4 segs
    ∃ d, asPathDowngrade b = .ok d ∧
      ∃ up, parseSegs 2 d = some up ∧
        (if asPathHasWide b then asPathReconcile (encSegs 4 up) (asPathStripConfed b) else encSegs 4 up) = b

/-- a confederation segment behind a wide AS cannot be reconstructed (AS4_PATH never carries it, and it is neither
    leading nor adjacent to a prepended segment) -/
theorem as4_roundtrip_full_false : ¬ as4_roundtrip_full := by
  intro h
  have hok : SegsOk 4 [(2, [65536]), (3, [1])] := by
    intro s hs
    simp only [List.mem_cons, List.not_mem_nil, or_false] at hs
    rcases hs with rfl | rfl
    · exact ⟨by decide, fun a ha => by simp at ha; subst ha; decide⟩
    · exact ⟨by decide, fun a ha => by simp at ha; subst ha; decide⟩
  obtain ⟨d, hd, up, hup, hfin⟩ := h _ hok
  have e1 : asPathDowngrade (encSegs 4 [(2, [65536]), (3, [1])]) = .ok [2, 1, 91, 160, 3, 1, 0, 1] := by decide +kernel
  rw [e1] at hd
  injection hd with hd
  subst hd
  have e2 : parseSegs 2 [2, 1, 91, 160, 3, 1, 0, 1] = some [(2, [23456]), (3, [1])] := by decide +kernel
  rw [e2] at hup
  injection hup with hup
  subst hup
  revert hfin
  decide +kernel

/-- the master theorem without `Dom` (for every buildable input) -/
def check_run_full : Prop := ∀ (p : Profile) (i : Input), buildable i = true → check i (run p i) = .ok

/-- IPv4 next hop inside MP_REACH_NLRI (RFC 8950 session): the peer decodes c0a8:101:: -/
def wNexthop : Input :=
  ⟨[.mp Fam.ipv4, .enh [(Fam.ipv4, 2)]], [.mp Fam.ipv4, .enh [(Fam.ipv4, 2)]],
   .reach Fam.ipv4 (some (.v4 [192, 168, 1, 1])) [origin, ⟨2, 64, .bin []⟩] [⟨.ip false [0, 0, 0, 0] 0, 0⟩]⟩
/-- S11 (repaired): a 4050-byte attribute leaves 5 bytes; the 1-byte NLRI fits and is encoded -/
def wDropped : Input :=
  ⟨[.mp Fam.ipv4], [.mp Fam.ipv4],
   .reach Fam.ipv4 (some (.v4 [0, 0, 0, 1]))
     [origin, ⟨2, 64, .bin []⟩, ⟨99, 192, .opq ((List.range 4050).map (fun k => 31 * k % 251))⟩]
     [⟨.ip false [0, 0, 0, 0] 0, 0⟩]⟩
/-- S11 / S11b (repaired): with 4055 attribute bytes not even the 1-byte NLRI fits: refused -/
def wRefused : Input :=
  ⟨[.mp Fam.ipv4], [.mp Fam.ipv4],
   .reach Fam.ipv4 (some (.v4 [0, 0, 0, 1]))
     [origin, ⟨2, 64, .bin []⟩, ⟨99, 192, .opq ((List.range 4055).map (fun k => 31 * k % 251))⟩]
     [⟨.ip false [0, 0, 0, 0] 0, 0⟩]⟩
/-- S9 (repaired): 254 bytes of capabilities: refused -/
def wOpen : Input :=
  ⟨[.mp Fam.ipv4], [.mp Fam.ipv4], .open 1 0 1 [.unk 0 (List.replicate 125 0), .unk 3 (List.replicate 125 0)]⟩
/-- F4f (repaired): AGGREGATOR stored with the PARTIAL bit towards a 2-byte-AS peer -/
def wPartial : Input :=
  ⟨[.mp Fam.ipv4], [.mp Fam.ipv4],
   .reach Fam.ipv4 (some (.v4 [0, 0, 0, 1])) [origin, ⟨2, 64, .bin []⟩, ⟨7, 224, .bin [0, 0, 0, 1, 0, 0, 0, 0]⟩]
     [⟨.ip false [0, 0, 0, 0] 0, 0⟩]⟩
/-- F4e (repaired): leading confederation segment + wide AS towards a 2-byte-AS peer -/
def wConfed : Input :=
  ⟨[.mp Fam.ipv4], [.mp Fam.ipv4],
   .reach Fam.ipv4 (some (.v4 [0, 0, 0, 1])) [origin, ⟨2, 64, .bin [3, 1, 0, 0, 0, 1, 2, 1, 0, 1, 0, 0]⟩]
     [⟨.ip false [0, 0, 0, 0] 0, 0⟩]⟩
/-- RFC 6793 limitation (open): a confederation segment BEHIND a wide AS towards a 2-byte-AS peer -/
def wConfedTail : Input :=
  ⟨[.mp Fam.ipv4], [.mp Fam.ipv4],
   .reach Fam.ipv4 (some (.v4 [0, 0, 0, 1])) [origin, ⟨2, 64, .bin [2, 1, 0, 1, 0, 0, 3, 1, 0, 0, 0, 1]⟩]
     [⟨.ip false [0, 0, 0, 0] 0, 0⟩]⟩
/-- F4c (repaired): a NOTIFICATION with 4076 data bytes is cut to 4075 -/
def wNotif : Input := ⟨[.mp Fam.ipv4], [.mp Fam.ipv4], .notif 1 3 (List.replicate 4076 7)⟩

set_option maxRecDepth 1000000 in
theorem witness_nexthop :
    buildable wNexthop = true ∧ check wNexthop (run .debug wNexthop) = .fail "nexthop-differs-ipv4-in-mp-reach" := by
  decide +kernel

set_option maxRecDepth 1000000 in
/-- S11 repaired: the prefix is encoded (one frame) and comes back; the fixed-point probe succeeds -/
theorem repaired_dropped :
    buildable wDropped = true ∧ check wDropped (run .debug wDropped) = .ok ∧ check wDropped (run .release wDropped) = .ok ∧
      ∃ s dec, run .release wDropped = .obs 1 s dec .t := by
  refine ⟨by decide +kernel, by decide +kernel, by decide +kernel, ?_⟩
  cases h : run .release wDropped with
  | panic => exact absurd h (by decide +kernel)
  | err => exact absurd h (by decide +kernel)
  | obs n s dec fp =>
      have hn : (match run .release wDropped with | .obs n _ _ fp => n == 1 && fp == .t | _ => false) = true := by
        decide +kernel
      rw [h] at hn
      simp only [Bool.and_eq_true, beq_iff_eq] at hn
      exact ⟨s, dec, by rw [hn.1, hn.2]⟩

set_option maxRecDepth 1000000 in
/-- S11/S11b repaired: an input that cannot be encoded is refused in both profiles, and the checker accepts that -/
theorem repaired_refused :
    buildable wRefused = true ∧ encodable wRefused = false ∧ run .debug wRefused = .err ∧ run .release wRefused = .err ∧
      check wRefused .err = .ok := by
  decide +kernel

set_option maxRecDepth 1000000 in
/-- S9 repaired: no panic, no wrapped length: refused in both profiles -/
theorem repaired_open :
    buildable wOpen = true ∧ encodable wOpen = false ∧ run .debug wOpen = .err ∧ run .release wOpen = .err ∧
      check wOpen .err = .ok := by
  decide +kernel

set_option maxRecDepth 1000000 in
theorem repaired_partial :
    buildable wPartial = true ∧ check wPartial (run .debug wPartial) = .ok ∧ check wPartial (run .release wPartial) = .ok := by
  decide +kernel

set_option maxRecDepth 1000000 in
theorem repaired_confed :
    buildable wConfed = true ∧ check wConfed (run .debug wConfed) = .ok ∧ check wConfed (run .release wConfed) = .ok := by
  decide +kernel

set_option maxRecDepth 1000000 in
theorem repaired_notification :
    buildable wNotif = true ∧ check wNotif (run .debug wNotif) = .ok ∧ check wNotif (run .release wNotif) = .ok := by
  decide +kernel

set_option maxRecDepth 1000000 in
theorem witness_confed_tail :
    buildable wConfedTail = true ∧ Dom wConfedTail = false ∧
      check wConfedTail (run .debug wConfedTail) = .fail "as-path-differs-confed-segment-not-leading" := by
  decide +kernel

theorem check_run_full_false : ¬ check_run_full := by
  intro h
  have := h .debug wNexthop witness_nexthop.1
  rw [witness_nexthop.2] at this
  cases this

end Rbgp.Enc.Props
