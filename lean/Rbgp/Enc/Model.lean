/-
  Rbgp.Enc.Model — hand-written model of the ENCODE side of packet/src/bgp.rs:
  `PeerCodec::negotiate`, `Capability::encode`, the OPEN arm of `do_encode` with its one-octet
  length checks, `Attribute::encode`, the 2-byte-AS downgrade (`as_path_downgrade_2byte`,
  `as_path_has_wide_as`, `as_path_strip_confed`, `aggregator_downgrade_2byte`) with AS4_PATH /
  AS4_AGGREGATOR synthesis, `Ipv4Net::encode` / `Ipv6Net::encode`, `mp_reach_encode`,
  `mp_unreach_encode`, `put_entries` (the "does one more entry fit" loop on actual encoded
  lengths), the back-patched length fields of `do_encode`, and the chunk loop of
  `PeerCodec::encode_to`.

  One Lean function per Rust function, same branch order.  Bytes are `List Nat` (each < 256).
  Fixed-width arithmetic that the property is about (u16 attribute / MP lengths, the u16
  header length) goes through `addU16/subU16`, which panic in the `debug` profile and wrap in
  `release`; `as u8` / `as u16` casts truncate in both.  Rust `unwrap()` on the wrong
  `AttributeData` variant and slice indexing out of range are explicit `panic` outcomes; an
  `Err` return of `encode_to` (input refused, nothing written) is the `err` outcome.

  NLRI of the families outside IPv4/IPv6 unicast/multicast are `Nlri.opq`.  For VPN, labeled
  unicast, Flow Specification (+VPN) and EVPN the case carries the NLRI's structure (`NStruct`) and
  the NLRI encoder is modelled (`NStruct.encode`; decoder: `Reader.NStruct.decodeLike`).  For LS,
  MUP, SR-policy and RTC the wire bytes (or the fact that the encoder panics on / refuses them)
  are a parameter supplied by the case (measured on the real code).  The framing / chunking
  logic is the modelled one for all of them.

  Import-free (core only).
-/
namespace Rbgp.Enc

abbrev Bytes := List Nat

inductive Profile where
  | debug | release
  deriving DecidableEq, Repr, Inhabited

/-- Outcome of a Rust computation that may panic or return `Err` (the encoder refuses its input). -/
inductive Out (α : Type) where
  | ok (a : α)
  | panic
  | err
  deriving Repr, Inhabited, DecidableEq

namespace Out
@[inline] def bind {α β} : Out α → (α → Out β) → Out β
  | ok a, f => f a
  | panic, _ => panic
  | err, _ => err
instance : Monad Out where
  pure := Out.ok
  bind := Out.bind
@[simp] theorem bind_ok {α β} (a : α) (f : α → Out β) : (Out.ok a >>= f) = f a := rfl
@[simp] theorem bind_panic {α β} (f : α → Out β) : ((Out.panic : Out α) >>= f) = Out.panic := rfl
@[simp] theorem bind_err {α β} (f : α → Out β) : ((Out.err : Out α) >>= f) = Out.err := rfl
@[simp] theorem pure_eq {α} (a : α) : (pure a : Out α) = Out.ok a := rfl
/-- the value, or `d` when there is none -/
def getD {α} (o : Out α) (d : α) : α := match o with | ok a => a | _ => d
@[simp] theorem getD_ok {α} (a d : α) : (Out.ok a).getD d = a := rfl
end Out

/-! ### fixed-width arithmetic -/

def addU16 (p : Profile) (a b : Nat) : Out Nat :=
  if a + b < 65536 then .ok (a + b) else match p with
    | .debug => .panic
    | .release => .ok ((a + b) % 65536)

/-- `a - b` on `u16`. -/
def subU16 (p : Profile) (a b : Nat) : Out Nat :=
  if b ≤ a then .ok (a - b) else match p with
    | .debug => .panic
    | .release => .ok ((a + 65536 - b) % 65536)

def be16 (n : Nat) : Bytes := [n / 256 % 256, n % 256]
def be32 (n : Nat) : Bytes := [n / 16777216 % 256, n / 65536 % 256, n / 256 % 256, n % 256]

/-- big-endian value of a byte string -/
def beNat : Bytes → Nat
  | bs => bs.foldl (fun acc b => acc * 256 + b) 0

/-! ### values -/

structure Fam where
  afi : Nat
  safi : Nat
  deriving DecidableEq, Repr, Inhabited

def Fam.ipv4 : Fam := ⟨1, 1⟩
def Fam.ipv6 : Fam := ⟨2, 1⟩

/-- `Family(u32)` on the wire: afi(2) reserved(1)=0 safi(1). -/
def Fam.u32 (f : Fam) : Bytes := be16 f.afi ++ [0, f.safi]

inductive Cap where
  | mp (f : Fam)
  | rr
  | enh (l : List (Fam × Nat))
  | em
  | gr (flags time : Nat) (l : List (Fam × Nat))
  | as4 (n : Nat)
  | ap (l : List (Fam × Nat))
  | err
  | llgr (l : List (Fam × Nat × Nat))
  | fqdn (host domain : Bytes)
  | unk (code : Nat) (bin : Bytes)
  deriving DecidableEq, Repr, Inhabited

inductive AData where
  | val (n : Nat)
  | bin (b : Bytes)
  | opq (b : Bytes)
  deriving DecidableEq, Repr, Inhabited

structure Attr where
  code : Nat
  flags : Nat
  data : AData
  deriving DecidableEq, Repr, Inhabited

inductive Nh where
  | v4 (a : Bytes)            -- 4 bytes
  | v6 (a : Bytes)            -- 16 bytes
  | v6ll (g l : Bytes)        -- 16 + 16 bytes
  deriving DecidableEq, Repr, Inhabited

/-- What the real decoder returned for a one-entry MP attribute carrying an opaque NLRI (probe). -/
inductive ODec where
  | err
  | panic
  | ents (l : List (Nat × Bool))     -- (path id, equal to the input entry)
  deriving DecidableEq, Repr, Inhabited

/-- Route Distinguisher (RFC 4364 §4.2): type 0 = 2-octet AS : 4-octet number, type 1 = IPv4 address : 2-octet number,
    type 2 = 4-octet AS : 2-octet number -/
structure Rd where
  ty : Nat
  admin : Nat
  assigned : Nat
  deriving DecidableEq, Repr, Inhabited

/-- `flowspec.rs::Op`: operator octet (its two length bits are recomputed from the value) and value -/
structure FOp where
  bits : Nat
  value : Nat
  deriving DecidableEq, Repr, Inhabited

/-- Flow Specification component (RFC 8955 §4.2.2 / RFC 8956 §3): a prefix component (types 1, 2; `off` = the IPv6
    offset, 0 for IPv4) or a list of operator/value pairs (types 3 .. 13) -/
inductive FComp where
  | pfx (ty mask off : Nat) (addr : Bytes)
  | num (ty : Nat) (ops : List FOp)
  deriving DecidableEq, Repr, Inhabited

/-- EVPN routes (RFC 7432 §7.1 - §7.4, RFC 9136 §3.1); `ip` = 0 / 4 / 16 address octets -/
inductive EvpnR where
  | ead (rd : Rd) (esi : Bytes) (etag label : Nat)
  | macip (rd : Rd) (esi : Bytes) (etag : Nat) (mac ip : Bytes) (l1 : Nat) (l2 : Option Nat)
  | imet (rd : Rd) (etag : Nat) (ip : Bytes)
  | es (rd : Rd) (esi : Bytes) (ip : Bytes)
  | pfx (rd : Rd) (esi : Bytes) (etag plen : Nat) (ip gw : Bytes) (label : Nat)
  deriving DecidableEq, Repr, Inhabited

/-- Structured NLRI of the families whose NLRI codec is modelled (VPN-IPv4/IPv6: RFC 4364 / 4659, labeled unicast:
    RFC 8277, Flow Specification incl. its VPN form: RFC 8955 / 8956, EVPN route types 1 - 5), as the harness reads it
    off the Rust value through public fields -/
inductive NStruct where
  | vpn (labels : List Nat) (rd : Rd) (addr : Bytes) (mask : Nat)
  | lab (labels : List Nat) (addr : Bytes) (mask : Nat)
  | flow (v6 : Bool) (rd : Option Rd) (comps : List FComp)
  | evpn (r : EvpnR)
  deriving DecidableEq, Repr, Inhabited

/-- what is known about an NLRI outside the IPv4/IPv6 model from its INPUT: `wire` = it has a wire form by its
    family's RFC; `st` = its structure, for the families whose NLRI codec is modelled (then the model encodes /
    decodes it itself and the probe is only cross-checked); `wd` = it travels in MP_UNREACH_NLRI -/
structure OInfo where
  wire : Bool
  wd : Bool
  st : Option NStruct
  deriving DecidableEq, Repr, Inhabited

inductive Nlri where
  /-- IPv4 (`v6 = false`, 4 address bytes) or IPv6 (`v6 = true`, 16 address bytes) prefix -/
  | ip (v6 : Bool) (addr : Bytes) (mask : Nat)
  /-- NLRI of a family outside the model: its wire bytes as measured on the real encoder (or panic / `Err`),
      the decode probe, and `wire` = the value has a wire form by its family's RFC (decided from the INPUT, not
      by the encoder: the only reason for "none" is a label stack whose bit count exceeds the length octet) -/
  | opq (enc : Out Bytes) (dec : ODec) (info : OInfo)
  deriving DecidableEq, Repr, Inhabited

structure Entry where
  nlri : Nlri
  pid : Nat
  deriving DecidableEq, Repr, Inhabited

inductive Msg where
  | open (asn hold rid : Nat) (caps : List Cap)
  | reach (f : Fam) (nh : Option Nh) (attrs : List Attr) (es : List Entry)
  | unreach (f : Fam) (es : List Entry)
  | eor (f : Fam)
  | notif (code sub : Nat) (data : Bytes)
  | keepalive
  | rr (f : Fam)
  deriving DecidableEq, Repr, Inhabited

/-! ### `PeerCodec::negotiate` -/

structure FamState where
  rx : Bool
  tx : Bool
  /-- RFC 8950: both speakers advertised an IPv6 next hop for this family -/
  enh : Bool
  deriving DecidableEq, Repr, Inhabited

structure Codec where
  extLen : Bool
  fams : List (Fam × FamState)
  twoByte : Bool
  deriving DecidableEq, Repr, Inhabited

structure Raw where
  addpath : Nat
  extNh : Bool
  deriving DecidableEq, Repr, Inhabited

def lookup {β} (f : Fam) : List (Fam × β) → Option β
  | [] => none
  | (g, b) :: rest => if g = f then some b else lookup f rest

/-- `HashMap::insert` on an association list (replace or append). -/
def insert {β} (f : Fam) (b : β) : List (Fam × β) → List (Fam × β)
  | [] => [(f, b)]
  | (g, c) :: rest => if g = f then (g, b) :: rest else (g, c) :: insert f b rest

/-- `if let Some(fc) = h.get_mut(f) { upd fc }` -/
def modify {β} (f : Fam) (upd : β → β) : List (Fam × β) → List (Fam × β)
  | [] => []
  | (g, c) :: rest => if g = f then (g, upd c) :: rest else (g, c) :: modify f upd rest

/-- the closure `parse` of `negotiate` -/
def parseCaps (v : List Cap) : List (Fam × Raw) :=
  let h1 := v.foldl (fun h c => match c with
    | .mp f => insert f ⟨0, false⟩ h
    | _ => h) []
  let h2 := v.foldl (fun h c => match c with
    | .ap l => l.foldl (fun h (fm : Fam × Nat) => modify fm.1 (fun r => { r with addpath := fm.2 }) h) h
    | _ => h) h1
  v.foldl (fun h c => match c with
    | .enh l => l.foldl (fun h (fa : Fam × Nat) =>
        if fa.1.afi ≠ 1 then h
        else if fa.2 = 2 then modify fa.1 (fun r => { r with extNh := true }) h else h) h
    | _ => h) h2

def hasEm (v : List Cap) : Bool := v.any (fun c => match c with | .em => true | _ => false)
def hasAs4 (v : List Cap) : Bool := v.any (fun c => match c with | .as4 _ => true | _ => false)

def bit0 (n : Nat) : Bool := n % 2 == 1
def bit1 (n : Nat) : Bool := n / 2 % 2 == 1

def negotiate (loc rem : List Cap) : Codec :=
  let lmap := parseCaps loc
  let rmap := parseCaps rem
  let common := rmap.filterMap (fun (frc : Fam × Raw) =>
    (lookup frc.1 lmap).map (fun lc => (frc.1, lc, frc.2)))
  { extLen := hasEm loc && hasEm rem
    fams := common.map (fun x =>
      (x.1, { rx := bit0 x.2.1.addpath && bit1 x.2.2.addpath
              tx := bit1 x.2.1.addpath && bit0 x.2.2.addpath
              enh := x.2.1.extNh && x.2.2.extNh }))
    twoByte := !(hasAs4 loc && hasAs4 rem) }

def Codec.maxLen (c : Codec) : Nat := if c.extLen then 65535 else 4096

/-- `self.families.get(family).is_some_and(|s| s.addpath_tx)` -/
def Codec.addpathTx (c : Codec) (f : Fam) : Bool :=
  match lookup f c.fams with
  | some s => s.tx
  | none => false

/-- `ipv4_via_mp`: `self.families.get(&Family::IPV4).is_some_and(|s| s.extended_nexthop)` — IPv4 unicast travels in
    MP_REACH_NLRI / MP_UNREACH_NLRI when the extended next hop is in force for IPv4 unicast -/
def Codec.extNh (c : Codec) : Bool :=
  match lookup Fam.ipv4 c.fams with
  | some s => s.enh
  | none => false

/-! ### `Capability::encode` -/

def lower (b : Nat) : Nat := if 65 ≤ b ∧ b ≤ 90 then b + 32 else b

def capCode : Cap → Nat
  | .mp _ => 1 | .rr => 2 | .enh _ => 5 | .em => 6 | .gr .. => 64 | .as4 _ => 65
  | .ap _ => 69 | .err => 70 | .llgr _ => 71 | .fqdn .. => 73 | .unk c _ => c

/-- Returns the bytes written and their number; `Err` when they exceed code + length + 255 octets.
    The length octet is computed in `usize` and cast (`(v.len() * 6) as u8`): no overflow check in either profile. -/
def Cap.encode (c : Cap) : Out (Bytes × Nat) :=
  let body : Bytes := (match c with
    | .mp f => [4] ++ be16 f.afi ++ [0, f.safi]
    | .rr => [0]
    | .enh v => [v.length * 6 % 256] ++ v.flatMap (fun fa => fa.1.u32 ++ be16 fa.2)
    | .gr flags time fams =>
        [(fams.length * 4 + 2) % 256] ++ be16 (Nat.lor (flags * 4096 % 65536) time)
          ++ fams.flatMap (fun ff => be16 ff.1.afi ++ [ff.1.safi, ff.2])
    | .as4 n => [4] ++ be32 n
    | .ap v => [v.length * 4 % 256] ++ v.flatMap (fun fm => be16 fm.1.afi ++ [fm.1.safi, fm.2])
    | .em => [0]
    | .err => [0]
    | .llgr v =>
        [v.length * 7 % 256] ++ v.flatMap (fun x =>
          be16 x.1.afi ++ [x.1.safi, x.2.1, x.2.2 / 65536 % 256, x.2.2 / 256 % 256, x.2.2 % 256])
    | .fqdn h d =>
        [(2 + h.length + d.length) % 256, h.length % 256] ++ h.map lower ++ [d.length % 256] ++ d.map lower
    | .unk _ bin => [bin.length % 256] ++ bin)
  let bytes := capCode c :: body
  if bytes.length > 257 then .err else .ok (bytes, bytes.length)

/-- the capability loop of the OPEN arm: `cap_len += cap.encode(dst)?` on `usize` -/
def encodeCaps : List Cap → Nat → Out (Bytes × Nat)
  | [], acc => pure ([], acc)
  | c :: rest, acc => do
      let (b, l) ← c.encode
      let (bs, tot) ← encodeCaps rest (acc + l)
      pure (b ++ bs, tot)

/-! ### AS_PATH helpers (segment view of the byte-level walkers) -/

abbrev Seg := Nat × List Nat     -- (segment type, AS numbers)

def chunk (w : Nat) : Nat → Bytes → List Nat
  | 0, _ => []
  | n + 1, bs => beNat (bs.take w) :: chunk w n (bs.drop w)

/-- Walk `type(1) count(1) count×w bytes` segments; `none` = the Rust walker indexes out of range. -/
def parseSegs (w : Nat) (bs : Bytes) : Option (List Seg) :=
  match bs with
  | [] => some []
  | [_] => none
  | t :: c :: rest =>
      if rest.length < w * c then none
      else match parseSegs w (rest.drop (w * c)) with
        | none => none
        | some segs => some ((t, chunk w c rest) :: segs)
termination_by bs.length
decreasing_by simp [List.length_drop]; omega

def beW (w : Nat) (n : Nat) : Bytes := if w = 2 then be16 n else be32 n

def encSegs (w : Nat) (segs : List Seg) : Bytes :=
  segs.flatMap (fun s => [s.1, s.2.length % 256] ++ s.2.flatMap (beW w))

def TRANS_ASN : Nat := 23456

/-- `as_path_downgrade_2byte` -/
def asPathDowngrade (bin : Bytes) : Out Bytes :=
  match parseSegs 4 bin with
  | none => .panic
  | some segs => .ok (encSegs 2 (segs.map (fun s => (s.1, s.2.map (fun a => if a > 65535 then TRANS_ASN else a)))))

/-- `as_path_has_wide_as` (only called after the downgrade succeeded) -/
def asPathHasWide (bin : Bytes) : Bool :=
  match parseSegs 4 bin with
  | none => false
  | some segs => segs.any (fun s => s.2.any (fun a => a > 65535))

/-- `as_path_strip_confed` -/
def asPathStripConfed (bin : Bytes) : Bytes :=
  match parseSegs 4 bin with
  | none => bin
  | some segs => encSegs 4 (segs.filter (fun s => s.1 ≠ 3 ∧ s.1 ≠ 4))

/-! ### `Attribute::encode` -/

def FLAG_EXT : Nat := 16
def hasExt (flags : Nat) : Bool := flags / 16 % 2 == 1
def setExt (flags : Nat) : Nat := if hasExt flags then flags else flags + 16

def AData.binary? : AData → Option Bytes
  | .val _ => none
  | .bin b => some b
  | .opq b => some b

/-- Returns the bytes written and the `u16` return value. -/
def Attr.encode (a : Attr) : Out (Bytes × Nat) :=
  let fin (bs : Bytes) : Out (Bytes × Nat) := .ok (bs, bs.length % 65536)
  -- `put_fixed_len`: two-octet length when the stored flags carry EXTENDED-LENGTH
  let fixedLen (n : Nat) : Bytes := if hasExt a.flags then be16 n else [n]
  if a.code = 1 then
    match a.data with
    | .val v => fin ([a.flags, a.code] ++ fixedLen 1 ++ [v % 256])
    | _ => .panic
  else if a.code = 4 ∨ a.code = 5 ∨ a.code = 9 then
    match a.data with
    | .val v => fin ([a.flags, a.code] ++ fixedLen 4 ++ be32 v)
    | _ => .panic
  else
    match a.data.binary? with
    | none => .panic
    | some bin =>
        let flags := if bin.length > 255 then setExt a.flags else a.flags
        if hasExt flags then fin ([flags, a.code] ++ be16 (bin.length % 65536) ++ bin)
        else fin ([flags, a.code, bin.length % 256] ++ bin)

/-- `Attribute::canonical_flags` -/
def canonicalFlags (code : Nat) : Option Nat :=
  if code = 1 ∨ code = 2 ∨ code = 3 ∨ code = 5 ∨ code = 6 then some 64
  else if code = 4 ∨ code = 9 ∨ code = 10 ∨ code = 14 ∨ code = 15 ∨ code = 26 ∨ code = 29 then some 128
  else if code = 7 ∨ code = 8 ∨ code = 16 ∨ code = 17 ∨ code = 18 ∨ code = 32 ∨ code = 40 ∨ code = 23 then some 192
  else none

/-- One attribute of the Reach arm (`for a in attr.as_ref()`), incl. the 2-byte-AS downgrade. -/
def encodeOneAttr (twoByte : Bool) (a : Attr) : Out (List (Bytes × Nat)) :=
  if !twoByte then do
    let r ← a.encode
    pure [r]
  else if a.code = 2 then
    match a.data.binary? with
    | none => .panic
    | some bin => do
        let down ← asPathDowngrade bin
        let r1 ← (Attr.mk 2 a.flags (.bin down)).encode      -- `a.with_bin(..)`: the stored flags are kept
        if asPathHasWide bin then do
          let r2 ← (Attr.mk 17 192 (.bin (asPathStripConfed bin))).encode
          pure [r1, r2]
        else pure [r1]
  else if a.code = 7 then
    match a.data.binary? with
    | none => .panic
    | some bin =>
        if bin.length < 8 then .panic
        else do
          let asn := beNat (bin.take 4)
          let as2 := if asn > 65535 then TRANS_ASN else asn
          let r1 ← (Attr.mk 7 a.flags (.bin (be16 as2 ++ (bin.drop 4).take 4))).encode
          if asn > 65535 then do
            let r2 ← (Attr.mk 18 192 (.bin bin)).encode
            pure [r1, r2]
          else pure [r1]
  else do
    let r ← a.encode
    pure [r]

/-- `attr_len += x.encode_wire(dst)` (on `usize`) for each wire attribute written for one input attribute -/
def addLens : Nat → List (Bytes × Nat) → Nat
  | acc, [] => acc
  | acc, r :: rs => addLens (acc + r.2) rs

/-- The attribute loop: bytes written and the running `attr_len: usize`.  (`p` is kept for uniformity: the
    loop has no profile-dependent arithmetic any more.) -/
def encodeAttrs (p : Profile) (twoByte : Bool) : List Attr → Nat → Out (Bytes × Nat)
  | [], acc => pure ([], acc)
  | a :: rest, acc => do
      let rs ← encodeOneAttr twoByte a
      let (bs, tot) ← encodeAttrs p twoByte rest (addLens acc rs)
      pure (rs.flatMap (·.1) ++ bs, tot)

/-! ### Flow Specification NLRI length (`flowspec.rs::write_nlri_len`, `Nlri::put_flowspec`) -/

/-- `write_nlri_len`: one octet below 240, else `0xF0 | (len >> 8) as u8` and the low octet (RFC 8955 §4.1) -/
def flowNlriLen (n : Nat) : Bytes :=
  if n < 240 then [n] else [Nat.lor 240 (n / 256 % 256), n % 256]

/-- `Nlri::put_flowspec`: the rule (length field + body) is written only if the body fits the 12-bit length -/
def putFlowspec (body : Bytes) : Out Bytes :=
  let one := flowNlriLen body.length ++ body
  if one.length > 2 + 4095 then .err else .ok one

/-! ### UTF-8 (`String` values of the FQDN capability) -/

/-- decoder state: continuation octets still expected, and the range allowed for the next one -/
structure U8St where
  need : Nat
  lo : Nat
  hi : Nat
  deriving DecidableEq, Repr

/-- one octet of the well-formed UTF-8 table (RFC 3629 §4, Unicode Table 3-7) -/
def utf8Step (s : U8St) (b : Nat) : Option U8St :=
  if s.need = 0 then
    if b < 128 then some ⟨0, 128, 191⟩
    else if 194 ≤ b ∧ b ≤ 223 then some ⟨1, 128, 191⟩
    else if b = 224 then some ⟨2, 160, 191⟩
    else if (225 ≤ b ∧ b ≤ 236) ∨ b = 238 ∨ b = 239 then some ⟨2, 128, 191⟩
    else if b = 237 then some ⟨2, 128, 159⟩
    else if b = 240 then some ⟨3, 144, 191⟩
    else if 241 ≤ b ∧ b ≤ 243 then some ⟨3, 128, 191⟩
    else if b = 244 then some ⟨3, 128, 143⟩
    else none
  else if s.lo ≤ b ∧ b ≤ s.hi then some ⟨s.need - 1, 128, 191⟩
  else none

def utf8Run : Option U8St → Bytes → Option U8St
  | s, [] => s
  | none, _ => none
  | some s, b :: bs => utf8Run (utf8Step s b) bs

/-- `String::from_utf8(b).is_ok()` -/
def utf8Valid (b : Bytes) : Bool :=
  match utf8Run (some ⟨0, 128, 191⟩) b with
  | some s => s.need == 0
  | none => false

/-! ### NLRI -/

def ceil8 (n : Nat) : Nat := (n + 7) / 8

/-- `MplsLabel::encode`: 20-bit label, 3-bit TC (0), bottom-of-stack bit -/
def labelBytes (l : Nat) (bos : Bool) : Bytes :=
  let raw := l * 16 + (if bos then 1 else 0)
  [raw / 65536 % 256, raw / 256 % 256, raw % 256]

/-- `MplsLabelStack::encode`: the BoS bit on the last label -/
def stackBytes : List Nat → Bytes
  | [] => []
  | [l] => labelBytes l true
  | l :: rest => labelBytes l false ++ stackBytes rest

/-- `RouteDistinguisher::encode` -/
def Rd.bytes (r : Rd) : Bytes :=
  if r.ty = 0 then be16 0 ++ be16 r.admin ++ be32 r.assigned
  else be16 r.ty ++ be32 r.admin ++ be16 r.assigned

/-! ### Flow Specification components (`flowspec.rs`) -/

def be64 (n : Nat) : Bytes := be32 (n / 4294967296) ++ be32 n

/-- `Op::len_order` -/
def FOp.order (v : Nat) : Nat := if v ≤ 255 then 0 else if v ≤ 65535 then 1 else if v ≤ 4294967295 then 2 else 3

/-- `Op::encode`: `bits | (order << 4)`, then the value in 1 / 2 / 4 / 8 octets -/
def FOp.bytes (o : FOp) : Bytes :=
  let ord := FOp.order o.value
  (o.bits ||| (ord <<< 4)) ::
    (if ord = 0 then [o.value % 256] else if ord = 1 then be16 o.value else if ord = 2 then be32 o.value else be64 o.value)

/-- `FlowspecV4Component::encode` / `FlowspecV6Component::encode` (`encode_ipv4_prefix` / `encode_ipv6_prefix`:
    `net.addr.octets()[i]` for `i < mask.div_ceil(8)`) -/
def FComp.bytes (v6 : Bool) : FComp → Out Bytes
  | .pfx ty mask off addr =>
      if ceil8 mask ≤ addr.length then .ok (ty :: mask :: ((if v6 then [off] else []) ++ addr.take (ceil8 mask))) else .panic
  | .num ty ops => .ok (ty :: ops.flatMap FOp.bytes)

def compsBytes (v6 : Bool) : List FComp → Out Bytes
  | [] => .ok []
  | c :: rest =>
      match c.bytes v6 with
      | .ok b => (match compsBytes v6 rest with
          | .ok r => .ok (b ++ r)
          | e => e)
      | e => e

/-! ### EVPN routes (`evpn.rs`) -/

/-- `encode_evpn_label`: the low 24 bits, big-endian -/
def evpnLabel (l : Nat) : Bytes := [l / 65536 % 256, l / 256 % 256, l % 256]

/-- the address-length octet in bits + the address (`None` = a zero length octet) -/
def evpnIp (ip : Bytes) : Bytes := (8 * ip.length) :: ip

/-- the route body of `EvpnNlri::encode` -/
def EvpnR.body : EvpnR → Bytes
  | .ead rd esi etag label => rd.bytes ++ esi ++ be32 etag ++ evpnLabel label
  | .macip rd esi etag mac ip l1 l2 =>
      rd.bytes ++ esi ++ be32 etag ++ [48] ++ mac ++ evpnIp ip ++ evpnLabel l1 ++
        (match l2 with | some l => evpnLabel l | none => [])
  | .imet rd etag ip => rd.bytes ++ be32 etag ++ evpnIp ip
  | .es rd esi ip => rd.bytes ++ esi ++ evpnIp ip
  | .pfx rd esi etag plen ip gw label =>
      -- a gateway of the other address family is written as zeros
      rd.bytes ++ esi ++ be32 etag ++ [plen] ++ ip ++ (if gw.length = ip.length then gw else List.replicate ip.length 0) ++
        evpnLabel label

def EvpnR.ty : EvpnR → Nat
  | .ead .. => 1 | .macip .. => 2 | .imet .. => 3 | .es .. => 4 | .pfx .. => 5

/-- `Nlri::encode` (`withdrawn = false`) / `Nlri::encode_withdrawn` for the label-carrying families:
    `VpnV4Nlri/VpnV6Nlri::encode`, `LabeledV4Nlri/LabeledV6Nlri::encode` behind the `total_bits() > 255` guard of
    `Nlri::encode`; a withdrawn labeled prefix carries the compatibility field 0x800000 instead of its labels. -/
def NStruct.encode (withdrawn : Bool) : NStruct → Out Bytes
  | .vpn ls rd addr mask =>
      if 24 * ls.length + 64 + mask > 255 then .err
      else if ceil8 mask ≤ addr.length then
        .ok ([24 * ls.length + 64 + mask] ++ stackBytes ls ++ rd.bytes ++ addr.take (ceil8 mask))
      else .panic
  | .lab ls addr mask =>
      if withdrawn then
        if ceil8 mask ≤ addr.length then .ok ([(24 + mask) % 256, 128, 0, 0] ++ addr.take (ceil8 mask)) else .panic
      else if 24 * ls.length + mask > 255 then .err
      else if ceil8 mask ≤ addr.length then .ok ([24 * ls.length + mask] ++ stackBytes ls ++ addr.take (ceil8 mask))
      else .panic
  -- `FlowspecV4Nlri::encode` .. `FlowspecVpnV6Nlri::encode` behind `Nlri::put_flowspec`
  | .flow v6 rd comps =>
      match compsBytes v6 comps with
      | .ok b => putFlowspec ((match rd with | some r => r.bytes | none => []) ++ b)
      | e => e
  -- `EvpnNlri::encode`: type, `data.len() as u8`, data
  | .evpn r => .ok (r.ty :: (r.body.length % 256) :: r.body)

/-- `Nlri::encode` / `Nlri::encode_withdrawn`.  For a family outside the IPv4/IPv6 model: the modelled NLRI codec when
    the structure is known, else the probe (taken in the direction it is used). -/
def Nlri.encode : Nlri → Out Bytes
  | .ip _ addr mask =>
      -- `self.addr.octets()[i]` for `i < mask.div_ceil(8)` indexes out of range when the mask is too long
      if ceil8 mask ≤ addr.length then .ok (mask :: addr.take (ceil8 mask)) else .panic
  | .opq enc _ info =>
      match info.st with
      | some s => s.encode info.wd
      | none => enc

def Nh.bytes : Nh → Bytes
  | .v4 a => a
  | .v6 a => a
  | .v6ll g l => g ++ l

/-- `nh.addr()` is IPv4 -/
def Nh.v4? : Nh → Option Bytes
  | .v4 a => some a
  | _ => none

/-- The loop of `put_entries`: each entry (path id + NLRI) is encoded on its own and appended if the frame, with
    `tail` more octets to follow, stays within `max`; the loop ends at the first entry that does not fit.
    `cur` = bytes of the current frame written so far. -/
def fitLoop (max tail : Nat) (addpath : Bool) : Nat → List Entry → Out (Bytes × Nat)
  | _, [] => pure ([], 0)
  | cur, e :: es =>
      match e.nlri.encode with
      | .panic => .panic
      | .err => .err
      | .ok nb =>
          let b := (if addpath then be32 e.pid else []) ++ nb
          if cur + b.length + tail ≤ max then do
            let (bs, n) ← fitLoop max tail addpath (cur + b.length) es
            pure (b ++ bs, n + 1)
          else pure ([], 0)

/-- `put_entries`: not even the first entry fits ⇒ `Err` (no frame without progress is emitted). -/
def putEntries (max tail : Nat) (addpath : Bool) (cur : Nat) (es : List Entry) : Out (Bytes × Nat) := do
  let (nb, n) ← fitLoop max tail addpath cur es
  if n = 0 ∧ !es.isEmpty then .err else pure (nb, n)

def isFlowspec (f : Fam) : Bool := (f.afi = 1 ∨ f.afi = 2) ∧ (f.safi = 133 ∨ f.safi = 134)
def isVpn (f : Fam) : Bool := (f.afi = 1 ∨ f.afi = 2) ∧ f.safi = 128
/-- SR-policy, multicast, EVPN: next hop written as is -/
def nhAsIs (f : Fam) : Bool :=
  ((f.afi = 1 ∨ f.afi = 2) ∧ (f.safi = 73 ∨ f.safi = 2)) ∨ (f.afi = 25 ∧ f.safi = 70)

/-- VPN next hop: an 8-byte zero RD before each 16-byte (or shorter) address, `nh_bytes.chunks(16)` -/
def vpnNh (nhb : Bytes) : Bytes :=
  if h : nhb.length = 0 then []
  else if nhb.length ≤ 16 then List.replicate 8 0 ++ nhb
  else List.replicate 8 0 ++ nhb.take 16 ++ vpnNh (nhb.drop 16)
termination_by nhb.length
decreasing_by simp [List.length_drop]; omega

/-- `mp_reach_encode`: `cur` = frame bytes before the attribute.  Returns attribute bytes, `mp_len: u16`, count. -/
def mpReachEncode (p : Profile) (c : Codec) (cur : Nat) (f : Fam) (es : List Entry) (nh : Option Nh) :
    Out (Bytes × Nat × Nat) := do
  let nhb : Bytes := match nh with | some n => n.bytes | none => []
  let nhPart : Bytes :=
    if isFlowspec f then [0]
    else if isVpn f then [(vpnNh nhb).length % 256] ++ vpnNh nhb
    else if nhb.length < 16 ∧ !nhAsIs f then [16] ++ nhb ++ List.replicate (16 - nhb.length) 0
    else [nhb.length % 256] ++ nhb
  let head : Bytes := be16 f.afi ++ [f.safi] ++ nhPart ++ [0]
  let addpath := c.addpathTx f
  let (nb, n) ← putEntries c.maxLen 0 addpath (cur + 4 + head.length) es
  let mpLen := (4 + head.length + nb.length) % 65536
  let inner ← subU16 p mpLen 4
  pure ([144, 14] ++ be16 inner ++ head ++ nb, mpLen, n)

/-- `mp_unreach_encode` -/
def mpUnreachEncode (p : Profile) (c : Codec) (cur : Nat) (f : Fam) (es : List Entry) :
    Out (Bytes × Nat × Nat) := do
  let head : Bytes := be16 f.afi ++ [f.safi]
  let addpath := c.addpathTx f
  let (nb, n) ← putEntries c.maxLen 0 addpath (cur + 4 + head.length) es
  let mpLen := (4 + head.length + nb.length) % 65536
  let inner ← subU16 p mpLen 4
  pure ([144, 15] ++ be16 inner ++ head ++ nb, mpLen, n)

/-! ### `Notification` -/

/-- `Notification::from_notification(code, sub, data)` followed by the three accessors
    (`notification_code/subcode/data`): the triple that is written / compared. -/
def notifCanon (code sub : Nat) (data : Bytes) : Nat × Nat × Bytes :=
  let withData : Bool :=
    (code = 1 ∧ (sub = 2 ∨ sub = 3)) ∨ (code = 2 ∧ (sub = 1 ∨ sub = 4 ∨ sub = 7 ∨ sub = 6)) ∨
    (code = 3 ∧ (sub = 2 ∨ sub = 3 ∨ sub = 4 ∨ sub = 5 ∨ sub = 6 ∨ sub = 8)) ∨ (code = 7 ∧ sub = 1)
  let noData : Bool :=
    (code = 2 ∧ (sub = 0 ∨ sub = 2 ∨ sub = 3)) ∨ (code = 3 ∧ (sub = 1 ∨ sub = 9 ∨ sub = 10 ∨ sub = 11)) ∨
    (code = 6 ∧ 1 ≤ sub ∧ sub ≤ 9)
  if withData then (code, sub, data)
  else if noData then (code, sub, [])
  else if code = 4 then (4, 0, [])
  else if code = 5 then (5, sub, [])
  else (code, sub, data)

/-! ### `do_encode` -/

def marker : Bytes := List.replicate 16 255

/-- Header + body with the back-patched `(pos_end - pos_head) as u16` length. -/
def frame (ty : Nat) (body : Bytes) : Bytes :=
  marker ++ be16 ((19 + body.length) % 65536) ++ [ty] ++ body

/-- One wire message for `es` = `entries[start..]` (before the final size check).  Returns the frame and
    `n_encoded`. -/
def doEncodeBody (p : Profile) (c : Codec) (m : Msg) (es : List Entry) : Out (Bytes × Nat) :=
  match m with
  | .open asn hold rid caps => do
      let trans := if asn > 65535 then TRANS_ASN else asn
      let fixed : Bytes := [4] ++ be16 trans ++ be16 hold ++ be32 rid
      if caps.isEmpty then pure (frame 1 (fixed ++ [0]), 0)
      else do
        let (cb, capLen) ← encodeCaps caps 0
        -- both the parameter and the parameter block have a one-octet length
        if capLen + 2 > 255 then .err
        else pure (frame 1 (fixed ++ [capLen + 2, 2, capLen] ++ cb), 0)
  | .reach f nh attrs _ => do
      let addpath := c.addpathTx f
      let (ab, attrLen) ← encodeAttrs p c.twoByte attrs 0
      if f = Fam.ipv4 ∧ !c.extNh then do
        let nhAttr : Option (Bytes × Nat) ← (
          if es.isEmpty then pure none
          else match nh.bind Nh.v4? with
            | none => pure none
            | some v4 => do
                let r ← (Attr.mk 3 64 (.bin v4)).encode
                pure (some r) : Out (Option (Bytes × Nat)))
        let (ab, attrLen) ← (match nhAttr with
          | none => pure (ab, attrLen)
          | some r => pure (ab ++ r.1, attrLen + r.2) : Out (Bytes × Nat))
        let (nb, n) ← putEntries c.maxLen 0 addpath (23 + ab.length) es
        pure (frame 2 ([0, 0] ++ be16 attrLen ++ ab ++ nb), n)
      else do
        let (mb, mpLen, n) ← mpReachEncode p c (23 + ab.length) f es nh
        -- `attr_len as u16`: `be16` keeps the low 16 bits
        pure (frame 2 ([0, 0] ++ be16 (attrLen + mpLen) ++ ab ++ mb), n)
  | .unreach f _ => do
      let addpath := c.addpathTx f
      if f = Fam.ipv4 ∧ !c.extNh then do
        -- tail 2: the Total Path Attribute Length field written after the routes
        let (nb, n) ← putEntries c.maxLen 2 addpath 21 es
        -- `withdrawn_len as u16` cannot truncate: the loop keeps `dst.len() - pos_head ≤ max ≤ 65535`
        pure (frame 2 (be16 (nb.length % 65536) ++ nb ++ [0, 0]), n)
      else do
        let (mb, mpLen, n) ← mpUnreachEncode p c 23 f es
        pure (frame 2 ([0, 0] ++ be16 mpLen ++ mb), n)
  | .eor f => do
      if f ≠ Fam.ipv4 then do
        let (mb, mpLen, _) ← mpUnreachEncode p c 23 f []
        let attrLen ← addU16 p 0 mpLen
        pure (frame 2 ([0, 0] ++ be16 attrLen ++ mb), 0)
      else pure (frame 2 [0, 0, 0, 0], 0)
  | .notif code sub data =>
      let t := notifCanon code sub data
      -- the data is cut to what fits the message size limit
      pure (frame 3 ([t.1, t.2.1] ++ t.2.2.take (c.maxLen - 21)), 0)
  | .keepalive => pure (frame 4 [], 0)
  | .rr f => pure (frame 5 f.u32, 0)

/-- `do_encode`: a message longer than the size limit is refused (`pos_end - pos_head > max_message_length()`),
    before the header length is written. -/
def doEncode (p : Profile) (c : Codec) (m : Msg) (es : List Entry) : Out (Bytes × Nat) :=
  match doEncodeBody p c m es with
  | .ok (fr, n) => if fr.length > c.maxLen then .err else .ok (fr, n)
  | .panic => .panic
  | .err => .err

def Msg.entries : Msg → List Entry
  | .reach _ _ _ es => es
  | .unreach _ es => es
  | _ => []

/-- The `while start < total` loop of `encode_to`, over the remaining entries
    (`entries[start..]`); each frame comes with its `n_encoded`. -/
def encodeLoop (p : Profile) (c : Codec) (m : Msg) (es : List Entry) : Out (List (Bytes × Nat)) :=
  match es with
  | [] => .ok []
  | e :: rest =>
      match doEncode p c m (e :: rest) with
      | .panic => .panic
      | .err => .err
      | .ok (fr, n) =>
          if _h : n = 0 then .ok [(fr, 0)]          -- `if end <= start { break }`
          else match encodeLoop p c m ((e :: rest).drop n) with
            | .panic => .panic
            | .err => .err
            | .ok r => .ok ((fr, n) :: r)
termination_by es.length
decreasing_by simp [List.length_drop]; omega

/-- `PeerCodec::encode_to`: the frames written, each with the number of entries it carries (on `Err` nothing is
    appended to the caller's buffer: the frames are collected in a scratch buffer first). -/
def encodeTo (p : Profile) (c : Codec) (m : Msg) : Out (List (Bytes × Nat)) :=
  match m.entries with
  | [] =>
      match doEncode p c m [] with
      | .panic => .panic
      | .err => .err
      | .ok (fr, _) => .ok [(fr, 0)]
  | e :: es => encodeLoop p c m (e :: es)

end Rbgp.Enc
