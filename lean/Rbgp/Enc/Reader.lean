/-
  Rbgp.Enc.Reader — the small structural reader used by the C04 spec and by the model's
  "decode at the peer" step: a frame splitter (RFC 4271 §4.1), an UPDATE section reader
  (RFC 4271 §4.3: withdrawn / attribute TLVs / NLRI; RFC 4760 MP_REACH / MP_UNREACH; RFC 7911
  path identifiers), an OPEN / capability reader (RFC 5492 and the capability RFCs), and the
  receive-side AS4 reconciliation (RFC 6793 §4.2.3) in the form `PeerCodec::reconcile_as4`
  implements it.  Where the RFC leaves the reaction to malformed input open, the reader follows
  `PeerCodec::try_parse` / `parse_message` so that its verdict on encoder-produced frames can be
  compared with the real decoder's (correspondence stream).

  Two layers: a purely structural one (`splitFrames`, `updateSections`, `tlvs`, `capTlvs`) that the
  spec uses for the "length fields are mutually consistent" clauses, and an interpreting one
  (`parseMessage`) producing the values the peer obtains.

  Import-free apart from the model's *types*.
-/
import Rbgp.Enc.Model
namespace Rbgp.Enc

/-- A decoded NLRI entry. -/
inductive DEntry where
  | ip (v6 : Bool) (addr : Bytes) (mask pid : Nat)
  | o (pid : Nat) (eq : Bool)
  deriving DecidableEq, Repr, Inhabited

inductive Parsed where
  | open (asn hold rid : Nat) (caps : List Cap)
  | upd (reach mpReach : Option (Fam × Option Nh × List DEntry))
        (unreach mpUnreach : Option (Fam × List DEntry))
        (attrs : List Attr) (errs : List (Nat × Nat))
  | eor (f : Fam)
  | notif (code sub : Nat) (data : Bytes)
  | keepalive
  | rr (f : Fam)
  deriving DecidableEq, Repr, Inhabited

/-- Result of one `try_parse` call. -/
inductive DRes where
  | msg (p : Parsed)
  | err (code sub : Nat)
  | short (n : Nat)
  | panic
  deriving DecidableEq, Repr, Inhabited

/-- What the decoder of a family outside the model returns for an NLRI byte region (a parameter). -/
abbrev OpaqueDec := Fam → Bool → Bytes → ODec

/-! ### layer 1: structure -/

/-- Split a byte stream into frames by the header length field.  Returns the complete frames and the
    undelimitable rest (empty iff the stream is exactly a sequence of frames).  A length field < 19
    stops the split (the rest is returned as is). -/
def splitFrames (bs : Bytes) : List Bytes × Bytes :=
  if h : bs.length < 19 then ([], bs)
  else
    let len := beNat ((bs.drop 16).take 2)
    if h2 : len < 19 ∨ bs.length < len then ([], bs)
    else
      let r := splitFrames (bs.drop len)
      (bs.take len :: r.1, r.2)
termination_by bs.length
decreasing_by simp [List.length_drop]; omega

structure RawAttr where
  flags : Nat
  code : Nat
  val : Bytes
  deriving DecidableEq, Repr, Inhabited

/-- Attribute TLVs of an attribute block; the flag is `true` iff the block ends exactly at a TLV
    boundary (the `while c.position() < attr_end` loop ended without `break`). -/
def tlvs (bs : Bytes) : List RawAttr × Bool :=
  match bs with
  | [] => ([], true)
  | [_] => ([], false)
  | flags :: code :: rest =>
      -- width of the length field: two octets with the EXTENDED-LENGTH flag, else one
      let w := if flags / 16 % 2 = 1 then 2 else 1
      if _h : rest.length < w then ([], false)
      else
        let alen := beNat (rest.take w)
        if _h2 : rest.length < w + alen then ([], false)
        else
          let r := tlvs (rest.drop (w + alen))
          (⟨flags, code, (rest.drop w).take alen⟩ :: r.1, r.2)
termination_by bs.length
decreasing_by simp [List.length_drop]; omega

structure Sections where
  withdrawn : Bytes
  attrs : Bytes
  nlri : Bytes
  deriving DecidableEq, Repr, Inhabited

/-- Sections of an UPDATE body (frame without the 19-byte header); `none` = the two length fields do
    not fit the body. -/
def updateSections (body : Bytes) : Option Sections :=
  if body.length < 4 then none
  else
    let wlen := beNat (body.take 2)
    if body.length < wlen + 4 then none
    else
      let rest := body.drop (2 + wlen)
      let alen := beNat (rest.take 2)
      if body.length < wlen + alen + 4 then none
      else some ⟨(body.drop 2).take wlen, (rest.drop 2).take alen, rest.drop (2 + alen)⟩

/-- Capability TLVs (`code len value`) of a capability parameter; `none` = a TLV overruns. -/
def capTlvs (bs : Bytes) : Option (List (Nat × Bytes)) :=
  match bs with
  | [] => some []
  | [_] => none
  | code :: len :: rest =>
      if h : rest.length < len then none
      else match capTlvs (rest.drop len) with
        | none => none
        | some l => some ((code, rest.take len) :: l)
termination_by bs.length
decreasing_by simp [List.length_drop]; omega

/-- Optional parameters (`type len value`) of an OPEN; `none` = a parameter overruns. -/
def optParams (bs : Bytes) : Option (List (Nat × Bytes)) := capTlvs bs

/-! ### layer 2: values -/

def allOf (bs : Bytes) (n : Nat) : Bool := bs.all (· == n)

/-- `Nexthop::from_bytes` -/
def nhFromBytes (b : Bytes) : Option Nh :=
  if b.length = 4 then some (.v4 b)
  else if b.length = 16 then some (.v6 b)
  else if b.length = 32 then
    if allOf (b.drop 16) 0 then some (.v6 (b.take 16)) else some (.v6ll (b.take 16) (b.drop 16))
  else none

/-- segment types 1..4, no segment of length zero (RFC 7606 §7.2) -/
def segTypesOk (segs : List Seg) : Bool := segs.all (fun s => 1 ≤ s.1 ∧ s.1 ≤ 4 ∧ s.2.length ≠ 0)

/-- AIGP TLV walk of `Attribute::decode` -/
def aigpOk (b : Bytes) : Bool :=
  if h : b.length = 0 then true
  else if h3 : b.length < 3 then false
  else
    let tl := beNat ((b.drop 1).take 2)
    if h4 : tl < 3 ∨ b.length < tl then false
    else aigpOk (b.drop tl)
termination_by b.length
decreasing_by simp only [List.length_drop]; omega

/-- `Attribute::decode` (data part); `none` = `Err(())`. -/
def decodeAttrData (code : Nat) (v : Bytes) (twoByte : Bool) : Option AData :=
  if code = 1 then
    match v with
    | [x] => if x > 2 then none else some (.val x)
    | _ => none
  else if code = 4 ∨ code = 5 ∨ code = 9 then
    if v.length = 4 then some (.val (beNat v)) else none
  else if code = 2 then
    if twoByte then
      match parseSegs 2 v with
      | some segs => if segTypesOk segs then some (.bin (encSegs 4 segs)) else none
      | none => none
    else
      match parseSegs 4 v with
      | some segs => if segTypesOk segs then some (.bin v) else none
      | none => none
  else if code = 6 then
    if v.length = 0 then some (.bin []) else none
  else if code = 7 then
    if v.length = 6 then some (.bin (be32 (beNat (v.take 2)) ++ v.drop 2))
    else if v.length = 8 then some (.bin v) else none
  else if code = 8 ∨ code = 10 then
    if v.length % 4 = 0 then some (.bin v) else none
  else if code = 16 then
    if v.length % 8 = 0 then some (.bin v) else none
  else if code = 32 then
    if v.length % 12 = 0 then some (.bin v) else none
  else if code = 17 then
    if v.length % 2 ≠ 0 ∨ v.length < 6 then none
    else match parseSegs 4 v with
      | some segs => if segTypesOk segs ∧ segs.all (fun s => s.2.length ≠ 0) then some (.bin v) else none
      | none => none
  else if code = 18 then
    if v.length = 8 then some (.bin v) else none
  else if code = 3 then
    -- NEXT_HOP is one IPv4 address (RFC 4271 §4.3)
    if v.length = 4 then some (.bin v) else none
  else if code = 26 then
    -- AIGP: a sequence of TLVs, 1-byte type, 2-byte length that includes these three bytes (RFC 7311 §3)
    if aigpOk v then some (.bin v) else none
  else some (.bin v)

/-- State of the attribute loop of the UPDATE arm. -/
structure ASt where
  seen : List Nat := []
  attrs : List Attr := []
  errs : List (Nat × Nat) := []
  mpReach : Option Bytes := none
  mpUnreach : Option Bytes := none
  nexthop : Option Nh := none
  deriving Repr, Inhabited

/-- One iteration of the attribute loop; `none` = the fatal `return Err(malformed())`. -/
def attrStep (twoByte : Bool) (st : ASt) (r : RawAttr) : Option ASt :=
  if st.seen.contains r.code then
    if r.code = 14 ∨ r.code = 15 then none else some st
  else
    let st := { st with seen := r.code :: st.seen }
    match canonicalFlags r.code with
    | some exp =>
        if r.flags / 64 % 4 ≠ exp / 64 % 4 then
          -- RFC 7606 §3(c): wrong Optional/Transitive bits are an error; MP_REACH/MP_UNREACH are still decoded
          -- (their prefixes must be withdrawn), any other attribute is skipped
          let st := { st with errs := st.errs ++ [(r.code, r.flags)] }
          if r.code = 14 then
            match decodeAttrData r.code r.val twoByte with
            | some d => some { st with mpReach := d.binary? }
            | none => some { st with errs := st.errs ++ [(r.code, r.flags)] }
          else if r.code = 15 then
            match decodeAttrData r.code r.val twoByte with
            | some d => some { st with mpUnreach := d.binary? }
            | none => some { st with errs := st.errs ++ [(r.code, r.flags)] }
          else some st
        else
          match decodeAttrData r.code r.val twoByte with
          | some d =>
              if r.code = 14 then some { st with mpReach := d.binary? }
              else if r.code = 15 then some { st with mpUnreach := d.binary? }
              else if r.code = 3 then some { st with nexthop := d.binary?.bind nhFromBytes }
              else if (r.code = 17 ∨ r.code = 18) ∧ !twoByte then some st
              else some { st with attrs := st.attrs ++ [⟨r.code, r.flags, d⟩] }
          | none =>
              if r.code ≠ 17 ∧ r.code ≠ 18 then some { st with errs := st.errs ++ [(r.code, r.flags)] }
              else some st
    | none =>
        if r.flags / 128 % 2 = 0 then some { st with errs := st.errs ++ [(r.code, r.flags)] }
        else if r.flags / 64 % 2 = 1 then some { st with attrs := st.attrs ++ [⟨r.code, r.flags, .opq r.val⟩] }
        else some st

def attrLoop (twoByte : Bool) : ASt → List RawAttr → Option ASt
  | st, [] => some st
  | st, r :: rs => match attrStep twoByte st r with
    | none => none
    | some st' => attrLoop twoByte st' rs

/-- `decode_nlri_list` for `Ipv4Net::decode` / `Ipv6Net::decode`; `none` = `Err` (3,1).
    Per entry: 4-byte path id when add-path is on (`len < 4` ⇒ error), the length octet (`read_u8` on an empty
    reader ⇒ error), `len < bit_len.div_ceil(8) || bit_len > 32|128` ⇒ error, then `div_ceil(8)` address
    bytes (a short read ⇒ error); the decoded address is zero-padded to 4 / 16 bytes. -/
def ipNlriList (v6 addpath : Bool) (bs : Bytes) : Option (List DEntry) :=
  if hbs : bs.length = 0 then some []
  else
    let alen := if v6 then 16 else 4
    let hdr := if addpath then 4 else 0
    if _h : bs.length < hdr + 1 then none
    else
      let pid := if addpath then beNat (bs.take 4) else 0
      let bits := beNat ((bs.drop hdr).take 1)
      if _h2 : bits > 8 * alen ∨ bs.length < hdr + 1 + ceil8 bits then none
      else
        match ipNlriList v6 addpath (bs.drop (hdr + 1 + ceil8 bits)) with
        | none => none
        | some l =>
            some (.ip v6 ((bs.drop (hdr + 1)).take (ceil8 bits) ++ List.replicate (alen - ceil8 bits) 0) bits pid :: l)
termination_by bs.length
decreasing_by simp [List.length_drop]; omega

def isIpFam (f : Fam) : Option Bool :=
  if f.afi = 1 ∧ (f.safi = 1 ∨ f.safi = 2) then some false
  else if f.afi = 2 ∧ (f.safi = 1 ∨ f.safi = 2) then some true
  else none

/-- Families whose NLRI decoder exists in `Nlri::decode` but is outside the Lean model. -/
def isOpaqueFam (f : Fam) : Bool :=
  (f.afi = 1 ∨ f.afi = 2) ∧ (f.safi = 85 ∨ f.safi = 128 ∨ f.safi = 4 ∨ f.safi = 133 ∨ f.safi = 134 ∨ f.safi = 73)
  ∨ (f.afi = 16388 ∧ f.safi = 71) ∨ (f.afi = 25 ∧ f.safi = 70) ∨ (f.afi = 1 ∧ f.safi = 132)

inductive NlriRes where
  | ok (l : List DEntry)
  | err
  | panic
  deriving DecidableEq, Repr, Inhabited

/-- `decode_nlri_list` -/
def nlriList (od : OpaqueDec) (f : Fam) (addpath reach : Bool) (bs : Bytes) : NlriRes :=
  if bs.isEmpty then .ok []
  else match isIpFam f with
    | some v6 => match ipNlriList v6 addpath bs with
      | some l => .ok l
      | none => .err
    | none =>
        if isOpaqueFam f then
          match od f reach bs with
          | .err => .err
          | .panic => .panic
          | .ents l => .ok (l.map (fun x => .o x.1 x.2))
        else .err

def rxOf (c : Codec) (f : Fam) : Option Bool := (lookup f c.fams).map (·.rx)

/-! #### AS4 reconciliation (`reconcile_as4`, `as_path_reconcile`, `count_as_hops`, `as_path_take_prefix`) -/

def countHops (segs : List Seg) : Nat :=
  segs.foldl (fun n s => if s.1 = 1 then n + 1 else if s.1 = 2 then n + s.2.length else n) 0

def takePrefix : List Seg → Nat → List Seg
  | [], _ => []
  | s :: rest, n =>
      -- RFC 6793 §4.2.3: a confederation segment that leads the path or follows a prepended segment is kept
      if n = 0 ∧ ¬ (s.1 = 3 ∨ s.1 = 4) then []
      else if s.1 = 2 then
        let take := min s.2.length n
        (2, s.2.take take) :: takePrefix rest (n - take)
      else if s.1 = 1 then s :: takePrefix rest (n - 1)
      else s :: takePrefix rest n

/-- `as_path_reconcile` on validated byte strings -/
def asPathReconcile (asPath as4Path : Bytes) : Bytes :=
  match parseSegs 4 asPath, parseSegs 4 as4Path with
  | some p, some p4 =>
      if countHops p < countHops p4 then asPath
      else encSegs 4 (takePrefix p (countHops p - countHops p4)) ++ as4Path
  | _, _ => asPath

def removeFirst (code : Nat) : List Attr → Option Attr × List Attr
  | [] => (none, [])
  | a :: rest => if a.code = code then (some a, rest) else
      let r := removeFirst code rest
      (r.1, a :: r.2)

def replaceFirst (code : Nat) (b : Attr) : List Attr → List Attr
  | [] => []
  | a :: rest => if a.code = code then b :: rest else a :: replaceFirst code b rest

def findFirst (code : Nat) : List Attr → Option Attr
  | [] => none
  | a :: rest => if a.code = code then some a else findFirst code rest

/-- the AGGREGATOR half of `reconcile_as4`: the new list and `ignore_as4_path` -/
def reconAgg (as4Agg : Option Attr) (attrs : List Attr) : List Attr × Bool :=
  match as4Agg, findFirst 7 attrs with
  | some a4, some agg =>
      (match agg.data.binary?, a4.data.binary? with
       | some ab, some b4 =>
          if beNat (ab.take 4) = TRANS_ASN then (replaceFirst 7 ⟨7, agg.flags, .bin b4⟩ attrs, false)
          else (attrs, true)
       | _, _ => (attrs, false))
  | _, _ => (attrs, false)

/-- the AS_PATH half of `reconcile_as4` -/
def reconPath (as4Path : Option Attr) (attrs : List Attr) : List Attr :=
  match as4Path, findFirst 2 attrs with
  | some a4, some ap =>
      (match ap.data.binary?, a4.data.binary? with
       | some pb, some b4 => replaceFirst 2 ⟨2, ap.flags, .bin (asPathReconcile pb b4)⟩ attrs
       | _, _ => attrs)
  | _, _ => attrs

/-- `reconcile_as4` (inputs are decoder-validated, so the `binary().unwrap()`s cannot fail) -/
def reconcileAs4 (attrs : List Attr) : List Attr :=
  let r17 := removeFirst 17 attrs
  let r18 := removeFirst 18 r17.2
  let ra := reconAgg r18.1 r18.2
  if ra.2 then ra.1 else reconPath r17.1 ra.1

/-! #### OPEN -/

def famOfU32 (b : Bytes) : Fam := ⟨beNat (b.take 2), beNat ((b.drop 3).take 1)⟩

def groups (n : Nat) (bs : Bytes) : List Bytes :=
  if h : n = 0 ∨ bs.length < n then [] else bs.take n :: groups n (bs.drop n)
termination_by bs.length
decreasing_by simp [List.length_drop]; omega

/-! #### label-carrying NLRI (`vpn.rs`, `labeled.rs`, `mpls.rs`, `rd.rs`) -/

/-- `MplsLabelStack::decode`: 3-octet labels until the bottom-of-stack bit; `none` = the input ends first.
    Returns the label values and the rest. -/
def readLabels : Nat → Bytes → Option (List Nat × Bytes)
  | 0, _ => none
  | fuel + 1, bs =>
      match bs with
      | a :: b :: c :: rest =>
          let raw := a * 65536 + b * 256 + c
          if raw % 2 = 1 then some ([raw / 16], rest)
          else match readLabels fuel rest with
            | some (ls, r) => some (raw / 16 :: ls, r)
            | none => none
      | _ => none

/-- `RouteDistinguisher::decode` -/
def readRd (b : Bytes) : Option Rd :=
  if b.length ≠ 8 then none
  else
    let ty := beNat (b.take 2)
    if ty = 0 then some ⟨0, beNat ((b.drop 2).take 2), beNat (b.drop 4)⟩
    else if ty = 1 ∨ ty = 2 then some ⟨ty, beNat ((b.drop 2).take 4), beNat (b.drop 6)⟩
    else none

/-- `VpnV4Nlri::decode` / `VpnV6Nlri::decode` on exactly the bytes of one NLRI (`alen` = 4 / 16) -/
def vpnDecode (alen : Nat) (bs : Bytes) : Option NStruct :=
  if bs.length < 12 then none
  else match bs with
    | [] => none
    | total :: rest =>
        if total < 88 then none
        else match readLabels rest.length rest with
          | none => none
          | some (ls, r) =>
              if total < 24 * ls.length + 64 then none
              else
                let pbits := total - 24 * ls.length - 64
                if pbits > 8 * alen then none
                else if r.length < 8 then none
                else match readRd (r.take 8) with
                  | none => none
                  | some rd =>
                      let a := r.drop 8
                      if a.length ≠ ceil8 pbits then none
                      else some (.vpn ls rd (a ++ List.replicate (alen - a.length) 0) pbits)

/-- `LabeledV4Nlri::decode` / `LabeledV6Nlri::decode` on exactly the bytes of one NLRI; in MP_UNREACH_NLRI the three
    octets after the length are the compatibility field and the label stack reads `[0]` -/
def labDecode (alen : Nat) (reach : Bool) (bs : Bytes) : Option NStruct :=
  if bs.length < 4 then none
  else match bs with
    | [] => none
    | total :: rest =>
        if total < 24 then none
        else
          let lr : Option (List Nat × Bytes) := if reach then readLabels rest.length rest else some ([0], rest.drop 3)
          match lr with
          | none => none
          | some (ls, a) =>
              if total < 24 * ls.length then none
              else
                let pbits := total - 24 * ls.length
                if pbits > 8 * alen then none
                else if a.length ≠ ceil8 pbits then none
                else some (.lab ls (a ++ List.replicate (alen - a.length) 0) pbits)

/-- `flowspec.rs::read_nlri_len`: (length, octets of the length field) -/
def readFlowNlriLen : Bytes → Option (Nat × Nat)
  | [] => none
  | first :: rest =>
      if first < 240 then some (first, 1)
      else match rest with
        | [] => none
        | second :: _ => some ((first % 16) * 256 + second, 2)

/-- `Op::decode`: the two length bits select 1 / 2 / 4 / 8 value octets and are stripped from `bits` -/
def readOp : Bytes → Option (FOp × Bytes)
  | [] => none
  | raw :: rest =>
      let w := 1 <<< (raw / 16 % 4)
      if rest.length < w then none else some (⟨raw &&& 207, beNat (rest.take w)⟩, rest.drop w)

/-- `decode_ops`: operators up to and including the one with the end-of-list bit -/
def readOps : Nat → Bytes → Option (List FOp × Bytes)
  | 0, _ => none
  | fuel + 1, bs =>
      match readOp bs with
      | none => none
      | some (o, r) =>
          if o.bits &&& 128 ≠ 0 then some ([o], r)
          else match readOps fuel r with
            | some (os, r') => some (o :: os, r')
            | none => none

/-- `FlowspecV4Component::decode` / `FlowspecV6Component::decode` -/
def readComp (v6 : Bool) : Bytes → Option (FComp × Bytes)
  | [] => none
  | ty :: rest =>
      if ty = 1 ∨ ty = 2 then
        match rest with
        | [] => none
        | mask :: r2 =>
            if mask > (if v6 then 128 else 32) then none
            else if v6 then
              match r2 with
              | [] => none
              | off :: r3 =>
                  if r3.length < ceil8 mask then none
                  else some (.pfx ty mask off (r3.take (ceil8 mask) ++ List.replicate (16 - ceil8 mask) 0), r3.drop (ceil8 mask))
            else
              if r2.length < ceil8 mask then none
              else some (.pfx ty mask 0 (r2.take (ceil8 mask) ++ List.replicate (4 - ceil8 mask) 0), r2.drop (ceil8 mask))
      else if 3 ≤ ty ∧ ty ≤ (if v6 then 13 else 12) then
        match readOps rest.length rest with
        | some (ops, r) => some (.num ty ops, r)
        | none => none
      else none

/-- the component loop `while pos < nlri_len` -/
def readComps : Nat → Bool → Bytes → Option (List FComp)
  | _, _, [] => some []
  | 0, _, _ :: _ => none
  | fuel + 1, v6, b :: bs =>
      match readComp v6 (b :: bs) with
      | none => none
      | some (c, r) =>
          match readComps fuel v6 r with
          | some cs => some (c :: cs)
          | none => none

/-- `FlowspecV4Nlri::decode` .. `FlowspecVpnV6Nlri::decode` on the bytes of one NLRI -/
def flowDecode (v6 vpn : Bool) (bs : Bytes) : Option NStruct :=
  match readFlowNlriLen bs with
  | none => none
  | some (n, h) =>
      if n + h > bs.length then none
      else if vpn && n < 8 then none
      else
        let body := (bs.drop h).take n
        if vpn then
          match readRd (body.take 8) with
          | none => none
          | some rd =>
              (match readComps body.length v6 (body.drop 8) with
               | some cs => some (.flow v6 (some rd) cs)
               | none => none)
        else
          match readComps body.length v6 body with
          | some cs => some (.flow v6 none cs)
          | none => none

/-- `read_exact` of `n` octets -/
def takeN (n : Nat) (bs : Bytes) : Option (Bytes × Bytes) :=
  if bs.length < n then none else some (bs.take n, bs.drop n)

/-- the address-length octet (bits) and the address of the EVPN routes; `zero` = an absent address is allowed -/
def readEvpnIp (zero : Bool) : Bytes → Option (Bytes × Bytes)
  | [] => none
  | l :: r =>
      if l = 0 then (if zero then some ([], r) else none)
      else if l = 32 then takeN 4 r
      else if l = 128 then takeN 16 r
      else none

/-- `EvpnNlri::decode` on the bytes of one NLRI: type, length, and the fields of the route types 1 - 5 in sequence -/
def evpnDecode : Bytes → Option NStruct
  | ty :: len :: r0 =>
      if ty = 1 then
        if len ≠ 25 then none else do
          let (rdb, r1) ← takeN 8 r0
          let rd ← readRd rdb
          let (esi, r2) ← takeN 10 r1
          let (etag, r3) ← takeN 4 r2
          let (l, _) ← takeN 3 r3
          pure (.evpn (.ead rd esi (beNat etag) (beNat l)))
      else if ty = 2 then
        if len < 33 then none else do
          let (rdb, r1) ← takeN 8 r0
          let rd ← readRd rdb
          let (esi, r2) ← takeN 10 r1
          let (etag, r3) ← takeN 4 r2
          let (ml, r4) ← takeN 1 r3
          if ml ≠ [48] then none else
          let (mac, r5) ← takeN 6 r4
          let (ip, r6) ← readEvpnIp true r5
          let (l1, r7) ← takeN 3 r6
          if len = 33 + ip.length + 3 then do
            let (l2, _) ← takeN 3 r7
            pure (.evpn (.macip rd esi (beNat etag) mac ip (beNat l1) (some (beNat l2))))
          else pure (.evpn (.macip rd esi (beNat etag) mac ip (beNat l1) none))
      else if ty = 3 then
        if len < 17 then none else do
          let (rdb, r1) ← takeN 8 r0
          let rd ← readRd rdb
          let (etag, r2) ← takeN 4 r1
          let (ip, _) ← readEvpnIp false r2
          pure (.evpn (.imet rd (beNat etag) ip))
      else if ty = 4 then
        if len < 23 then none else do
          let (rdb, r1) ← takeN 8 r0
          let rd ← readRd rdb
          let (esi, r2) ← takeN 10 r1
          let (ip, _) ← readEvpnIp false r2
          pure (.evpn (.es rd esi ip))
      else if ty = 5 then
        if len ≠ 34 ∧ len ≠ 58 then none else do
          let n := if len = 34 then 4 else 16
          let (rdb, r1) ← takeN 8 r0
          let rd ← readRd rdb
          let (esi, r2) ← takeN 10 r1
          let (etag, r3) ← takeN 4 r2
          let (pl, r4) ← takeN 1 r3
          let (ip, r5) ← takeN n r4
          let (gw, r6) ← takeN n r5
          let (l, _) ← takeN 3 r6
          pure (.evpn (.pfx rd esi (beNat etag) (beNat pl) ip gw (beNat l)))
      else none
  | _ => none

/-- the decoder of the structured NLRI's family, on its own bytes -/
def NStruct.decodeLike (s : NStruct) (reach : Bool) (bs : Bytes) : Option NStruct :=
  match s with
  | .vpn _ _ addr _ => vpnDecode addr.length bs
  | .lab _ addr _ => labDecode addr.length reach bs
  | .flow v6 rd _ => flowDecode v6 rd.isSome bs
  | .evpn _ => evpnDecode bs

/-- `nlri_equiv` of the harness: Rust `==`, except that a withdrawn labeled prefix is compared on the prefix only -/
def NStruct.equiv (reach : Bool) (a b : NStruct) : Bool :=
  match a, b with
  | .lab _ a1 m1, .lab _ a2 m2 => if reach then a == b else (a1 == a2 && m1 == m2)
  | _, _ => a == b

/-- `String::from_utf8(b).unwrap_or_default()` as bytes -/
def utf8OrEmpty (b : Bytes) : Bytes := if utf8Valid b then b else []

/-- `Capability::decode`; `none` = `Err(())`.  (`Family(u32)` keeps the reserved byte in the real code;
    the reader drops it, which cannot be observed through `afi()`/`safi()`.) -/
def decodeCap (code : Nat) (v : Bytes) : Option Cap :=
  if code = 1 then (if v.length = 4 then some (.mp (famOfU32 v)) else none)
  else if code = 2 then (if v.length = 0 then some .rr else none)
  else if code = 5 then
    if v.length % 6 ≠ 0 then none
    else some (.enh ((groups 6 v).filterMap (fun g =>
      let f := famOfU32 g
      let a := beNat (g.drop 4)
      if f.afi ≠ 1 ∨ a ≠ 2 then none else some (f, a))))
  else if code = 64 then
    if v.length % 4 ≠ 2 then none
    else
      let r := beNat (v.take 2)
      some (.gr (r / 4096) (r % 4096) ((groups 4 (v.drop 2)).map (fun g =>
        (⟨beNat (g.take 2), beNat ((g.drop 2).take 1)⟩, beNat (g.drop 3)))))
  else if code = 65 then (if v.length = 4 then some (.as4 (beNat v)) else none)
  else if code = 69 then
    if v.length % 4 ≠ 0 then none
    else some (.ap ((groups 4 v).filterMap (fun g =>
      let m := beNat (g.drop 3)
      if m = 0 ∨ m > 3 then none else some (⟨beNat (g.take 2), beNat ((g.drop 2).take 1)⟩, m))))
  else if code = 6 then (if v.length = 0 then some .em else none)
  else if code = 70 then (if v.length = 0 then some .err else none)
  else if code = 71 then
    if v.length % 7 ≠ 0 then none
    else some (.llgr ((groups 7 v).map (fun g =>
      (⟨beNat (g.take 2), beNat ((g.drop 2).take 1)⟩, beNat ((g.drop 3).take 1), beNat (g.drop 4)))))
  else if code = 73 then
    match v with
    | [] => none
    | [_] => none
    | hl :: rest =>
        if hl + 2 > v.length then none
        else
          let host := rest.take hl
          match rest.drop hl with
          | [] => none
          | dl :: rest2 =>
              if 2 + hl + dl > v.length then none
              else
                -- `String::from_utf8(..).unwrap_or_default()`
                some (.fqdn (utf8OrEmpty host) (utf8OrEmpty (rest2.take dl)))
  else some (.unk code v)

def decodeCaps : List (Nat × Bytes) → Option (List Cap)
  | [] => some []
  | (c, v) :: rest => match decodeCap c v, decodeCaps rest with
    | some x, some l => some (x :: l)
    | _, _ => none

/-- the optional-parameter walk of the OPEN arm -/
def openParams : List (Nat × Bytes) → List Cap → DRes ⊕ List Cap
  | [], acc => .inr acc
  | (ty, v) :: rest, acc =>
      if ty = 2 then
        match capTlvs v with
        | none => .inl (.err 2 0)
        | some l => match decodeCaps l with
          | none => .inl (.err 2 0)
          | some caps => openParams rest (acc ++ caps)
      else .inl (.err 2 4)

def lastAs4 (caps : List Cap) : Nat :=
  caps.foldl (fun n c => match c with | .as4 a => a | _ => n) 0

def parseOpen (buf : Bytes) : DRes :=
  if buf.length < 29 then .err 1 2
  else
    let b := buf.drop 19
    let version := beNat (b.take 1)
    if version ≠ 4 then .err 2 1
    else
      let asn := beNat ((b.drop 1).take 2)
      let hold := beNat ((b.drop 3).take 2)
      if hold = 1 ∨ hold = 2 then .err 2 6
      else
        let rid := beNat ((b.drop 5).take 4)
        -- unspecified, broadcast, multicast (224.0.0.0/4)
        if rid = 0 ∨ rid = 4294967295 ∨ rid / 268435456 = 14 then .err 2 3
        else
          let plen := beNat ((b.drop 9).take 1)
          if buf.length < 29 + plen then .err 2 0
          else
            match optParams ((b.drop 10).take plen) with
            | none => .err 2 0
            | some ps =>
                match openParams ps [] with
                | .inl e => e
                | .inr caps =>
                    let asn := if asn = TRANS_ASN then lastAs4 caps else asn
                    .msg (.open asn hold rid caps)

/-! #### UPDATE -/

def optNonEmpty {α} (f : Fam) (x : α) (l : List DEntry) (mk : Fam → α → List DEntry → β) : Option β :=
  if l.isEmpty then none else some (mk f x l)

def parseUpdate (od : OpaqueDec) (c : Codec) (buf : Bytes) : DRes :=
  if buf.length < 23 then .err 1 2
  else match updateSections (buf.drop 19) with
  | none => .err 3 1
  | some sec =>
    let (raws, cleanEnd) := tlvs sec.attrs
    match attrLoop c.twoByte {} raws with
    | none => .err 3 1
    | some st =>
      if sec.nlri.isEmpty ∧ sec.attrs.isEmpty ∧ sec.withdrawn.isEmpty then .msg (.eor Fam.ipv4)
      else
        let errs := st.errs
        let errs :=
          if ¬ sec.nlri.isEmpty ∨ st.mpReach.isSome then
            let errs := if ¬ st.seen.contains 1 ∨ ¬ st.seen.contains 2 then errs ++ [(1, 64)] else errs
            if errs.isEmpty ∧ st.nexthop.isNone ∧ ¬ sec.nlri.isEmpty then errs ++ [(3, 64)] else errs
          else errs
        let errs := if cleanEnd then errs else errs ++ [(0, 0)]
        -- legacy NLRI
        let reachR : NlriRes :=
          if sec.nlri.isEmpty then .ok []
          else match rxOf c Fam.ipv4 with
            | none => .err
            | some rx => nlriList od Fam.ipv4 rx true sec.nlri
        match reachR with
        | .err => .err 3 1
        | .panic => .panic
        | .ok reach =>
        let unreachR : NlriRes :=
          if sec.withdrawn.isEmpty then .ok []
          else match rxOf c Fam.ipv4 with
            | none => .err
            | some rx => nlriList od Fam.ipv4 rx false sec.withdrawn
        match unreachR with
        | .err => .err 3 1
        | .panic => .panic
        | .ok unreach =>
        -- MP_REACH_NLRI
        let mpReachR : DRes ⊕ Option (Fam × Option Nh × List DEntry) :=
          match st.mpReach with
          | none => .inr none
          | some b =>
              if b.length < 5 then .inl (.err 3 9)
              else
                let f : Fam := ⟨beNat (b.take 2), beNat ((b.drop 2).take 1)⟩
                match rxOf c f with
                | none => .inl (.err 3 1)
                | some rx =>
                    let nhl := beNat ((b.drop 3).take 1)
                    if b.length < 5 + nhl then .inl (.err 3 9)
                    else
                      let nhb := (b.drop 4).take nhl
                      let nhR : Option (Option Nh) :=
                        if nhl = 0 then (if isFlowspec f then some none else none)
                        else if nhl = 4 ∨ nhl = 16 ∨ nhl = 32 then some (nhFromBytes nhb)
                        else if nhl = 12 ∨ nhl = 24 then some (nhFromBytes (nhb.drop 8))
                        -- VPN-IPv6 global + link-local, an RD before each (RFC 4659 §3.2.1.2)
                        else if nhl = 48 then some (nhFromBytes ((nhb.drop 8).take 16 ++ nhb.drop 32))
                        else none
                      match nhR with
                      | none => .inl (.err 3 9)
                      | some nh =>
                          -- `c.read_u8().unwrap()` (SNPA count) cannot fail: 5 + nhl ≤ len was checked
                          match nlriList od f rx true (b.drop (5 + nhl)) with
                            | .err => .inl (.err 3 1)
                            | .panic => .inl .panic
                            | .ok l => .inr (some (f, nh, l))
        match mpReachR with
        | .inl e => e
        | .inr mpReach =>
        let mpUnreachR : DRes ⊕ Option (Fam × List DEntry) :=
          match st.mpUnreach with
          | none => .inr none
          | some b =>
              if b.length < 3 then .inl (.err 3 9)
              else
                let f : Fam := ⟨beNat (b.take 2), beNat ((b.drop 2).take 1)⟩
                match rxOf c f with
                | none => .inl (.err 3 1)
                | some rx => match nlriList od f rx false (b.drop 3) with
                  | .err => .inl (.err 3 1)
                  | .panic => .inl .panic
                  | .ok l => .inr (some (f, l))
        match mpUnreachR with
        | .inl e => e
        | .inr mpUnreach =>
        let isEor : Option Fam :=
          match mpUnreach with
          | some (f, l) =>
              if l.isEmpty && reach.isEmpty && (match mpReach with | none => true | some x => x.2.2.isEmpty)
                 && unreach.isEmpty && st.attrs.isEmpty && errs.isEmpty then some f else none
          | none => none
        match isEor with
        | some f => .msg (.eor f)
        | none =>
          let attrs := if c.twoByte then reconcileAs4 st.attrs else st.attrs
          .msg (.upd
            (if reach.isEmpty then none else some (Fam.ipv4, st.nexthop, reach))
            (match mpReach with
             | some (f, nh, l) => if l.isEmpty then none else some (f, nh, l)
             | none => none)
            (if unreach.isEmpty then none else some (Fam.ipv4, unreach))
            (match mpUnreach with
             | some (f, l) => if l.isEmpty then none else some (f, l)
             | none => none)
            attrs errs)

/-- `PeerCodec::parse_message` -/
def parseMessage (od : OpaqueDec) (c : Codec) (buf : Bytes) : DRes :=
  if buf.length < 19 then .err 1 2
  else
    let ty := beNat ((buf.drop 18).take 1)
    if ty = 1 then parseOpen buf
    else if ty = 2 then parseUpdate od c buf
    else if ty = 3 then
      if buf.length < 21 then .err 1 2
      else
        let t := notifCanon (beNat ((buf.drop 19).take 1)) (beNat ((buf.drop 20).take 1)) (buf.drop 21)
        .msg (.notif t.1 t.2.1 t.2.2)
    else if ty = 4 then
      if buf.length ≠ 19 then .err 1 2 else .msg .keepalive
    else if ty = 5 then
      if buf.length < 23 then .err 1 2
      else if 23 < buf.length then .err 7 1
      else .msg (.rr (famOfU32 (buf.drop 19)))
    else .err 1 3

/-- `PeerCodec::try_parse`: result and the remaining buffer. -/
def tryParse (od : OpaqueDec) (c : Codec) (src : Bytes) : DRes × Bytes :=
  if src.length < 19 then (.short src.length, src)
  else
    let len := beNat ((src.drop 16).take 2)
    if len < 19 ∨ len > c.maxLen then (.err 1 2, src)
    else if src.length < len then (.short src.length, src)
    else (parseMessage od c (src.take len), src.drop len)

end Rbgp.Enc
