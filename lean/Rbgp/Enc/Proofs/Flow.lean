/-
  Rbgp.Enc.Proofs.Flow — Flow Specification NLRI (RFC 8955 / 8956, `flowspec.rs`): operators, components, the rule
  with its length field, the VPN form.  decode ∘ encode = id on well-formed rules.
-/
import Rbgp.Enc.Proofs.Labels
namespace Rbgp.Enc

/-! ### one operator -/

/-- the operator octet: OR-ing the length bits in and masking them out again, for every octet without length bits -/
theorem op_bits : ∀ b, b < 256 → b &&& 48 = 0 → ∀ o, o < 4 →
    (b ||| (o <<< 4)) / 16 % 4 = o ∧ (b ||| (o <<< 4)) &&& 207 = b := by decide +kernel

theorem order_lt (v : Nat) : FOp.order v < 4 := by unfold FOp.order; split <;> (try split) <;> (try split) <;> omega

theorem beNat_be64 {n : Nat} (h : n < 18446744073709551616) : beNat (be64 n) = n := by
  simp [beNat, be64, be32]; omega

/-- an operator as `Op::decode` returns it: no length bits in `bits`, a 64-bit value -/
def FOp.Wf (o : FOp) : Prop := o.bits < 256 ∧ o.bits &&& 48 = 0 ∧ o.value < 18446744073709551616

theorem readOp_bytes (o : FOp) (rest : Bytes) (h : o.Wf) : readOp (o.bytes ++ rest) = some (o, rest) := by
  obtain ⟨b, v⟩ := o
  obtain ⟨h1, h2, h3⟩ := h
  simp only at h1 h2 h3
  have hb := op_bits b h1 h2 (FOp.order v) (order_lt v)
  simp only [FOp.bytes, List.cons_append, readOp, hb.1, hb.2]
  unfold FOp.order at *
  by_cases c0 : v ≤ 255
  · simp only [c0, if_true]
    simp [Nat.mod_eq_of_lt (show v < 256 by omega)]
  · by_cases c1 : v ≤ 65535
    · simp only [c0, c1, if_false, if_true]
      have : beNat (be16 v) = v := beNat_be16 (by omega)
      simp [be16] at this ⊢
      simpa [beNat] using this
    · by_cases c2 : v ≤ 4294967295
      · simp only [c0, c1, c2, if_false, if_true]
        have : beNat (be32 v) = v := beNat_be32 (by omega)
        simp [be32] at this ⊢
        simpa [beNat] using this
      · simp only [c0, c1, c2, if_false]
        have : beNat (be64 v) = v := beNat_be64 h3
        simp [be64, be32] at this ⊢
        simpa [beNat] using this

theorem opBytes_ne_nil (o : FOp) : o.bytes ≠ [] := by simp [FOp.bytes]

/-! ### operator lists -/

/-- an operator list as `decode_ops` returns it: not empty, the end-of-list bit on the last operator only -/
def OpsWf : List FOp → Prop
  | [] => False
  | [o] => o.Wf ∧ o.bits &&& 128 ≠ 0
  | o :: rest => o.Wf ∧ o.bits &&& 128 = 0 ∧ OpsWf rest

theorem readOps_bytes (ops : List FOp) (rest : Bytes) (h : OpsWf ops) (fuel : Nat) (hf : ops.length ≤ fuel) :
    readOps fuel (ops.flatMap FOp.bytes ++ rest) = some (ops, rest) := by
  induction ops generalizing fuel with
  | nil => exact absurd h (by simp [OpsWf])
  | cons o tl ih =>
      cases fuel with
      | zero => simp at hf
      | succ fuel =>
          cases tl with
          | nil =>
              obtain ⟨hw, he⟩ := h
              simp only [List.flatMap_cons, List.flatMap_nil, List.append_nil, readOps, readOp_bytes o rest hw]
              simp [he]
          | cons o2 tl' =>
              obtain ⟨hw, he, hr⟩ := h
              have ih' := ih hr fuel (by simp at hf ⊢; omega)
              simp only [List.flatMap_cons, List.append_assoc, readOps]
              rw [readOp_bytes o _ hw]
              simp only [he, ne_eq, not_true_eq_false, if_false]
              simp only [List.flatMap_cons, List.append_assoc] at ih'
              rw [ih']

/-! ### components -/

/-- a component as the decoders return it (`v6`: RFC 8956, with the offset octet and type 13) -/
def FComp.Wf (v6 : Bool) : FComp → Prop
  | .pfx ty mask off addr =>
      (ty = 1 ∨ ty = 2) ∧ addr.length = (if v6 then 16 else 4) ∧ mask ≤ 8 * addr.length ∧ AddrCanon addr mask ∧
        (if v6 then off < 256 else off = 0)
  | .num ty ops => 3 ≤ ty ∧ ty ≤ (if v6 then 13 else 12) ∧ OpsWf ops

theorem flatMap_opBytes_length (ops : List FOp) : ops.length ≤ (ops.flatMap FOp.bytes).length := by
  induction ops with
  | nil => simp
  | cons o tl ih =>
      have : 1 ≤ o.bytes.length := by simp [FOp.bytes]
      simp only [List.flatMap_cons, List.length_append, List.length_cons]; omega

theorem readComp_bytes (v6 : Bool) (c : FComp) (rest : Bytes) (h : c.Wf v6) :
    ∃ b, c.bytes v6 = .ok b ∧ b ≠ [] ∧ readComp v6 (b ++ rest) = some (c, rest) := by
  cases c with
  | pfx ty mask off addr =>
      obtain ⟨hty, hal, hm, hc, ho⟩ := h
      have hce : ceil8 mask ≤ addr.length := by unfold ceil8; omega
      have hl2 : (List.take (ceil8 mask) addr).length = ceil8 mask := by simp [List.length_take, Nat.min_eq_left hce]
      cases v6 with
      | false =>
          simp only [Bool.false_eq_true, if_false] at hal ho
          subst ho
          refine ⟨ty :: mask :: addr.take (ceil8 mask), by simp [FComp.bytes, hce], by simp, ?_⟩
          simp only [Bool.false_eq_true, if_false, List.cons_append, readComp, if_pos hty]
          rw [if_neg (show ¬ mask > 32 by omega)]
          rw [if_neg (by simp [List.length_append, hl2])]
          rw [List.take_append_of_le_length (by omega), List.drop_append_of_le_length (by omega)]
          rw [List.take_of_length_le (by omega), List.drop_of_length_le (by omega)]
          have : 4 - ceil8 mask = addr.length - ceil8 mask := by omega
          rw [this, hc]; rfl
      | true =>
          simp only [if_true] at hal ho
          refine ⟨ty :: mask :: off :: addr.take (ceil8 mask), by simp [FComp.bytes, hce], by simp, ?_⟩
          simp only [if_true, List.cons_append, readComp, if_pos hty]
          rw [if_neg (show ¬ mask > 128 by omega)]
          rw [if_neg (by simp [List.length_append, hl2])]
          rw [List.take_append_of_le_length (by omega), List.drop_append_of_le_length (by omega)]
          rw [List.take_of_length_le (by omega), List.drop_of_length_le (by omega)]
          have : 16 - ceil8 mask = addr.length - ceil8 mask := by omega
          rw [this, hc]; rfl
  | num ty ops =>
      obtain ⟨h3, h13, hops⟩ := h
      refine ⟨_, rfl, by simp, ?_⟩
      have hne : ¬ (ty = 1 ∨ ty = 2) := by omega
      simp only [List.cons_append, readComp, if_neg hne, if_pos (And.intro h3 h13)]
      rw [readOps_bytes ops rest hops _ (by
        have := flatMap_opBytes_length ops
        simp only [List.length_append]; omega)]

theorem readComps_bytes (v6 : Bool) (cs : List FComp) (h : ∀ c ∈ cs, c.Wf v6) (fuel : Nat) (hf : cs.length ≤ fuel) :
    ∃ b, compsBytes v6 cs = .ok b ∧ readComps fuel v6 b = some cs := by
  induction cs generalizing fuel with
  | nil => exact ⟨[], rfl, by cases fuel <;> rfl⟩
  | cons c tl ih =>
      cases fuel with
      | zero => simp at hf
      | succ fuel =>
          obtain ⟨bt, hbt, hrt⟩ := ih (fun x hx => h x (by simp [hx])) fuel (by simp at hf ⊢; omega)
          obtain ⟨b, hb, hne, hr⟩ := readComp_bytes v6 c bt (h c (by simp))
          refine ⟨b ++ bt, by simp only [compsBytes, hb, hbt], ?_⟩
          cases hbb : b with
          | nil => exact absurd hbb hne
          | cons x xs =>
              rw [hbb] at hr
              simp only [List.cons_append] at hr
              simp only [List.cons_append, readComps, hr, hrt]

theorem compsBytes_length_ge (v6 : Bool) (cs : List FComp) (b : Bytes) (h : compsBytes v6 cs = .ok b)
    (hw : ∀ c ∈ cs, c.Wf v6) : cs.length ≤ b.length := by
  induction cs generalizing b with
  | nil => simp
  | cons c tl ih =>
      obtain ⟨bt, hbt, _⟩ := readComps_bytes v6 tl (fun x hx => hw x (by simp [hx])) tl.length (Nat.le_refl _)
      obtain ⟨bc, hbc, hne, _⟩ := readComp_bytes v6 c [] (hw c (by simp))
      simp only [compsBytes, hbc, hbt] at h
      cases h
      have := ih bt hbt (fun x hx => hw x (by simp [hx]))
      have : 1 ≤ bc.length := by cases bc with | nil => exact absurd rfl hne | cons _ _ => simp
      simp only [List.length_append, List.length_cons]; omega

/-! ### the rule -/

theorem lor_240' : ∀ k, k < 16 → Nat.lor 240 k = 240 + k := by decide

theorem readFlowNlriLen_write (n : Nat) (h : n ≤ 4095) (rest : Bytes) :
    readFlowNlriLen (flowNlriLen n ++ rest) = some (n, (flowNlriLen n).length) := by
  unfold flowNlriLen
  by_cases h1 : n < 240
  · simp [h1, readFlowNlriLen]
  · have hk : n / 256 % 256 = n / 256 := Nat.mod_eq_of_lt (by omega)
    have hl := lor_240' (n / 256) (by omega)
    simp only [h1, if_false, hk, hl, List.cons_append, List.nil_append, readFlowNlriLen]
    have h2 : ¬ (240 + n / 256 < 240) := by omega
    simp only [h2, if_false, List.length_cons, List.length_nil]
    congr 2
    omega

/-- **Flow Specification NLRI (RFC 8955 §4, RFC 8956 §3; with an RD: the VPN form, RFC 8955 §8): decode ∘ encode = id**
    for every rule of well-formed components whose octets fit the 12-bit length -/
theorem flow_nlri_roundtrip (v6 : Bool) (rd : Option Rd) (cs : List FComp) (wd : Bool)
    (hcs : ∀ c ∈ cs, c.Wf v6) (hrd : ∀ r, rd = some r → RdOk r) (b : Bytes) (hb : compsBytes v6 cs = .ok b)
    (hlen : (if rd.isSome then 8 else 0) + b.length ≤ 4095) :
    ∃ bs, (NStruct.flow v6 rd cs).encode wd = .ok bs ∧ flowDecode v6 rd.isSome bs = some (.flow v6 rd cs) := by
  obtain ⟨b', hb', hread⟩ := readComps_bytes v6 cs hcs b.length (compsBytes_length_ge v6 cs b hb hcs)
  rw [hb] at hb'; cases hb'
  cases rd with
  | none =>
      simp only [Option.isSome_none, Bool.false_eq_true, if_false, Nat.zero_add] at hlen
      refine ⟨flowNlriLen b.length ++ b, ?_, ?_⟩
      · simp only [NStruct.encode, hb, List.nil_append, putFlowspec, List.length_append]
        have : (flowNlriLen b.length).length ≤ 2 := by unfold flowNlriLen; split <;> simp
        rw [if_neg (by omega)]
      · simp only [flowDecode, Option.isSome_none, readFlowNlriLen_write b.length hlen b, List.length_append]
        rw [if_neg (by omega)]
        simp only [Bool.false_and, Bool.false_eq_true, if_false]
        rw [List.drop_append_of_le_length (Nat.le_refl _), List.drop_of_length_le (Nat.le_refl _)]
        simp only [List.nil_append, List.take_length, hread]
  | some r =>
      simp only [Option.isSome_some, if_true] at hlen
      have hr := hrd r rfl
      have hl8 := rd_bytes_length r
      have hn : r.bytes.length + b.length ≤ 4095 := by omega
      have hw := readFlowNlriLen_write (r.bytes.length + b.length) hn (r.bytes ++ b)
      have hl2 : (flowNlriLen (r.bytes.length + b.length)).length ≤ 2 := by unfold flowNlriLen; split <;> simp
      refine ⟨flowNlriLen (r.bytes.length + b.length) ++ (r.bytes ++ b), ?_, ?_⟩
      · simp only [NStruct.encode, hb, putFlowspec, List.length_append]
        rw [if_neg (by omega)]
      · simp only [flowDecode, Option.isSome_some, hw, List.length_append]
        rw [if_neg (by omega)]
        have h8 : ¬ (r.bytes.length + b.length < 8) := by omega
        simp only [Bool.true_and, decide_eq_true_eq, h8, if_false, if_true]
        rw [List.drop_append_of_le_length (Nat.le_refl _), List.drop_of_length_le (Nat.le_refl _)]
        simp only [List.nil_append]
        have ht : List.take (r.bytes.length + b.length) (r.bytes ++ b) = r.bytes ++ b :=
          List.take_of_length_le (by simp)
        rw [ht]
        rw [List.take_append_of_le_length (by omega), List.take_of_length_le (by omega)]
        rw [readRd_bytes r hr]
        rw [List.drop_append_of_le_length (by omega), List.drop_of_length_le (by omega)]
        simp only [List.nil_append]
        obtain ⟨b2, hb2, hread2⟩ := readComps_bytes v6 cs hcs (r.bytes ++ b).length (by
          have := compsBytes_length_ge v6 cs b hb hcs
          simp only [List.length_append]; omega)
        rw [hb] at hb2; cases hb2
        rw [hread2]

/-- a rule longer than the length field can say is refused -/
theorem flow_nlri_too_long (v6 : Bool) (rd : Option Rd) (cs : List FComp) (wd : Bool) (b : Bytes)
    (hb : compsBytes v6 cs = .ok b) (hlen : (if rd.isSome then 8 else 0) + b.length > 4095) :
    (NStruct.flow v6 rd cs).encode wd = .err := by
  have h2 : ∀ n, n > 4095 → (flowNlriLen n).length = 2 := by
    intro n hn; unfold flowNlriLen; rw [if_neg (by omega)]; rfl
  cases rd with
  | none =>
      simp only [Option.isSome_none, Bool.false_eq_true, if_false, Nat.zero_add] at hlen
      simp only [NStruct.encode, hb, putFlowspec, List.nil_append, List.length_append, h2 _ hlen]
      rw [if_pos (by omega)]
  | some r =>
      simp only [Option.isSome_some, if_true] at hlen
      have := rd_bytes_length r
      simp only [NStruct.encode, hb, putFlowspec, List.length_append, h2 (r.bytes.length + b.length) (by omega)]
      rw [if_pos (by omega)]

end Rbgp.Enc
