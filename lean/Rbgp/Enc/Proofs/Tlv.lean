/-
  Rbgp.Enc.Proofs.Tlv — the structural reader inverts the wire syntax:
  attribute TLVs, UPDATE sections, IPv4/IPv6 NLRI lists (with and without path identifiers).
-/
import Rbgp.Enc.Proofs.Bytes
namespace Rbgp.Enc

/-! ### attribute TLVs -/

/-- width of the length field announced by the flags -/
def lenW (flags : Nat) : Nat := if flags / 16 % 2 = 1 then 2 else 1

/-- the length field -/
def lenField (flags n : Nat) : Bytes := if hasExt flags then be16 n else [n]

/-- wire form of an attribute TLV -/
def encRaw (r : RawAttr) : Bytes := [r.flags, r.code] ++ lenField r.flags r.val.length ++ r.val

/-- the value length fits the length field announced by the flags -/
def RawOk (r : RawAttr) : Prop :=
  r.val.length < 65536 ∧ (hasExt r.flags = false → r.val.length < 256)

theorem hasExt_iff (f : Nat) : hasExt f = true ↔ f / 16 % 2 = 1 := by simp [hasExt]

theorem lenField_length (f n : Nat) : (lenField f n).length = lenW f := by
  unfold lenField lenW
  by_cases h : f / 16 % 2 = 1
  · simp [(hasExt_iff f).mpr h, h]
  · have : hasExt f = false := by
      cases hh : hasExt f with
      | false => rfl
      | true => exact absurd ((hasExt_iff f).mp hh) h
    simp [this, h]

theorem beNat_lenField (f n : Nat) (h1 : n < 65536) (h2 : hasExt f = false → n < 256) :
    beNat (lenField f n) = n := by
  unfold lenField
  cases hh : hasExt f with
  | false => simp
  | true => simp [beNat_be16 h1]

theorem encRaw_length (r : RawAttr) : (encRaw r).length = 2 + lenW r.flags + r.val.length := by
  simp [encRaw, lenField_length]; omega

theorem tlvs_encRaw (r : RawAttr) (rest : Bytes) (h : RawOk r) :
    tlvs (encRaw r ++ rest) = (r :: (tlvs rest).1, (tlvs rest).2) := by
  obtain ⟨h1, h2⟩ := h
  have e : encRaw r ++ rest = r.flags :: r.code :: (lenField r.flags r.val.length ++ (r.val ++ rest)) := by
    simp [encRaw]
  rw [e, tlvs]
  have hw := lenField_length r.flags r.val.length
  have hw' : (if r.flags / 16 % 2 = 1 then 2 else 1) = lenW r.flags := rfl
  simp only [hw']
  have hl : ¬ (lenField r.flags r.val.length ++ (r.val ++ rest)).length < lenW r.flags := by
    simp [hw]
  simp only [hl, dite_false]
  rw [List.take_left' hw, beNat_lenField _ _ h1 h2]
  have hl2 : ¬ (lenField r.flags r.val.length ++ (r.val ++ rest)).length < lenW r.flags + r.val.length := by
    simp [hw]
  simp only [hl2, dite_false]
  rw [List.drop_left' hw, List.take_left' rfl]
  have : List.drop (lenW r.flags + r.val.length) (lenField r.flags r.val.length ++ (r.val ++ rest)) = rest := by
    rw [← List.append_assoc]; exact List.drop_left' (by simp [hw])
  rw [this]

theorem tlvs_flatMap (rs : List RawAttr) (h : ∀ r ∈ rs, RawOk r) :
    tlvs (rs.flatMap encRaw) = (rs, true) := by
  induction rs with
  | nil => simp [tlvs]
  | cons r rs ih =>
      rw [List.flatMap_cons, tlvs_encRaw r _ (h r (by simp))]
      rw [ih (fun r' hr' => h r' (by simp [hr']))]

/-! ### UPDATE sections -/

theorem updateSections_enc (w a n : Bytes) (hw : w.length < 65536) (ha : a.length < 65536) :
    updateSections (be16 w.length ++ w ++ be16 a.length ++ a ++ n) = some ⟨w, a, n⟩ := by
  unfold updateSections
  have e1 : be16 w.length ++ w ++ be16 a.length ++ a ++ n
      = be16 w.length ++ (w ++ (be16 a.length ++ (a ++ n))) := by simp
  rw [e1]
  have hl : ¬ (be16 w.length ++ (w ++ (be16 a.length ++ (a ++ n)))).length < 4 := by simp; omega
  simp only [hl, if_false]
  rw [List.take_left' (be16_length _), beNat_be16 hw]
  have hl2 : ¬ (be16 w.length ++ (w ++ (be16 a.length ++ (a ++ n)))).length < w.length + 4 := by
    simp; omega
  simp only [hl2, if_false]
  have d1 : List.drop (2 + w.length) (be16 w.length ++ (w ++ (be16 a.length ++ (a ++ n))))
      = be16 a.length ++ (a ++ n) := by
    rw [← List.append_assoc]; exact List.drop_left' (by simp)
  simp only [d1]
  rw [List.take_left' (be16_length _), beNat_be16 ha]
  have hl3 : ¬ (be16 w.length ++ (w ++ (be16 a.length ++ (a ++ n)))).length < w.length + a.length + 4 := by
    simp; omega
  simp only [hl3, if_false]
  rw [List.drop_left' (be16_length _), List.take_left' rfl, List.drop_left' (be16_length _),
      List.take_left' rfl]
  have : List.drop (2 + a.length) (be16 a.length ++ (a ++ n)) = n := by
    rw [← List.append_assoc]; exact List.drop_left' (by simp)
  rw [this]


/-! ### IPv4 / IPv6 NLRI lists -/

def alenOf (v6 : Bool) : Nat := if v6 then 16 else 4

/-- wire form of one prefix with optional path identifier -/
def encIp (addpath : Bool) (addr : Bytes) (mask pid : Nat) : Bytes :=
  (if addpath then be32 pid else []) ++ (mask :: addr.take (ceil8 mask))

/-- what the peer decodes for it -/
def decIp (v6 addpath : Bool) (addr : Bytes) (mask pid : Nat) : DEntry :=
  .ip v6 (addr.take (ceil8 mask) ++ List.replicate (alenOf v6 - ceil8 mask) 0) mask (if addpath then pid else 0)

theorem ceil8_le {mask n : Nat} (h : mask ≤ 8 * n) : ceil8 mask ≤ n := by
  unfold ceil8; omega

theorem ipNlriList_cons (v6 ap : Bool) (addr : Bytes) (mask pid : Nat) (rest : Bytes)
    (hlen : addr.length = alenOf v6) (hm : mask ≤ 8 * alenOf v6) (hp : pid < 4294967296) :
    ipNlriList v6 ap (encIp ap addr mask pid ++ rest) =
      (ipNlriList v6 ap rest).map (fun l => decIp v6 ap addr mask pid :: l) := by
  have hc : ceil8 mask ≤ addr.length := by rw [hlen]; exact ceil8_le hm
  have htl : (addr.take (ceil8 mask)).length = ceil8 mask := by simp [List.length_take]; omega
  rw [ipNlriList]
  cases ap with
  | false =>
      simp only [encIp, Bool.false_eq_true, if_false, List.nil_append, List.cons_append]
      have h0 : ¬ (mask :: (addr.take (ceil8 mask) ++ rest)).length = 0 := by simp
      simp only [h0, dite_false]
      have h1 : ¬ (mask :: (addr.take (ceil8 mask) ++ rest)).length < 0 + 1 := by simp
      simp only [h1, dite_false]
      simp only [List.drop_zero, List.take_succ_cons, List.take_zero, beNat_single]
      have h2 : ¬ (mask > 8 * (if v6 = true then 16 else 4) ∨
          (mask :: (addr.take (ceil8 mask) ++ rest)).length < 0 + 1 + ceil8 mask) := by
        simp [htl, alenOf] at hm ⊢
        constructor
        · exact hm
        · omega
      simp only [h2, dite_false]
      have d1 : List.drop (0 + 1 + ceil8 mask) (mask :: (addr.take (ceil8 mask) ++ rest)) = rest := by
        rw [show 0 + 1 + ceil8 mask = ceil8 mask + 1 by omega, List.drop_succ_cons]
        exact List.drop_left' htl
      have d2 : List.take (ceil8 mask) (List.drop (0 + 1) (mask :: (addr.take (ceil8 mask) ++ rest)))
          = addr.take (ceil8 mask) := by
        simp only [Nat.zero_add, List.drop_succ_cons, List.drop_zero]
        exact List.take_left' htl
      rw [d1, d2]
      cases ipNlriList v6 false rest <;> simp [decIp, alenOf]
  | true =>
      simp only [encIp, if_true]
      have e : be32 pid ++ mask :: List.take (ceil8 mask) addr ++ rest
          = be32 pid ++ (mask :: (addr.take (ceil8 mask) ++ rest)) := by simp
      rw [e]
      have h0 : ¬ (be32 pid ++ (mask :: (addr.take (ceil8 mask) ++ rest))).length = 0 := by simp
      simp only [h0, dite_false]
      have h1 : ¬ (be32 pid ++ (mask :: (addr.take (ceil8 mask) ++ rest))).length < 4 + 1 := by simp; omega
      simp only [h1, dite_false]
      rw [List.take_left' (be32_length _), beNat_be32 hp, List.drop_left' (be32_length _)]
      simp only [List.take_succ_cons, List.take_zero, beNat_single]
      have h2 : ¬ (mask > 8 * (if v6 = true then 16 else 4) ∨
          (be32 pid ++ (mask :: (addr.take (ceil8 mask) ++ rest))).length < 4 + 1 + ceil8 mask) := by
        simp [htl, alenOf] at hm ⊢
        constructor
        · exact hm
        · omega
      simp only [h2, dite_false]
      have d1 : List.drop (4 + 1 + ceil8 mask) (be32 pid ++ (mask :: (addr.take (ceil8 mask) ++ rest))) = rest := by
        rw [show be32 pid ++ (mask :: (addr.take (ceil8 mask) ++ rest))
              = (be32 pid ++ (mask :: addr.take (ceil8 mask))) ++ rest by simp]
        exact List.drop_left' (by simp [htl]; omega)
      have d2 : List.take (ceil8 mask) (List.drop (4 + 1) (be32 pid ++ (mask :: (addr.take (ceil8 mask) ++ rest))))
          = addr.take (ceil8 mask) := by
        rw [show be32 pid ++ (mask :: (addr.take (ceil8 mask) ++ rest))
              = (be32 pid ++ [mask]) ++ (addr.take (ceil8 mask) ++ rest) by simp]
        rw [List.drop_left' (by simp)]
        exact List.take_left' htl
      rw [d1, d2]
      cases ipNlriList v6 true rest <;> simp [decIp, alenOf]

end Rbgp.Enc
