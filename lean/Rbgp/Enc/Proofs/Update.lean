/-
  Rbgp.Enc.Proofs.Update — closed form of the UPDATE frames written by `do_encode` and what the
  peer's `parse_message` returns for them.
-/
import Rbgp.Enc.Proofs.Attr
namespace Rbgp.Enc
open Rbgp.Enc.Spec

theorem addU16_ok (p : Profile) (a b : Nat) (h : a + b < 65536) : addU16 p a b = .ok (a + b) := by
  simp [addU16, h]

theorem subU16_ok (p : Profile) (a b : Nat) (h : b ≤ a) : subU16 p a b = .ok (a - b) := by
  simp [subU16, h]

/-- attribute block written for 4-octet-AS peers -/
def attrBlock4 (attrs : List Attr) : Bytes := attrs.flatMap (fun a => encRaw (rawOf a))

theorem encodeAttrs_four (p : Profile) (attrs : List Attr) (acc : Nat)
    (h : ∀ a ∈ attrs, attrOk a = true) (hsum : acc + (attrBlock4 attrs).length < 65536) :
    encodeAttrs p false attrs acc = .ok (attrBlock4 attrs, acc + (attrBlock4 attrs).length) := by
  induction attrs generalizing acc with
  | nil => simp [encodeAttrs, attrBlock4]
  | cons a as ih =>
      have ha := h a (by simp)
      have hl : (encRaw (rawOf a)).length + (attrBlock4 as).length = (attrBlock4 (a :: as)).length := by
        simp [attrBlock4]
      simp only [encodeAttrs, encodeOneAttr, Bool.not_false, if_true]
      rw [attr_encode a (attrOk_kind a ha) (attrOk_len a ha)]
      simp only [Out.bind_ok, Out.pure_eq, addLens]
      have hm : (encRaw (rawOf a)).length % 65536 = (encRaw (rawOf a)).length := Nat.mod_eq_of_lt (by omega)
      rw [hm]
      rw [ih _ (fun x hx => h x (by simp [hx])) (by omega)]
      simp only [Out.bind_ok, Out.pure_eq]
      simp [attrBlock4]
      omega

/-! ### legacy IPv4 reach -/

/-- NEXT_HOP TLV appended by the legacy arm -/
def nhRaw (a : Bytes) : RawAttr := ⟨64, 3, a⟩

def ap4 (ap : Bool) : Nat := if ap then 4 else 0

theorem doEncode_reach_legacy (p : Profile) (c : Codec) (attrs : List Attr) (es0 es : List Entry)
    (a : Bytes) (ab : Bytes)
    (hleg : c.extNh = false) (ha : a.length = 4)
    (hattrs : encodeAttrs p c.twoByte attrs 0 = .ok (ab, ab.length))
    (henc : EncOk es) (hne : es ≠ [])
    (hpos : fitN c.maxLen 0 (c.addpathTx Fam.ipv4) (23 + (ab.length + 7)) es ≠ 0) :
    doEncodeBody p c (.reach Fam.ipv4 (some (.v4 a)) attrs es0) es =
      .ok (frame 2 ([0, 0] ++ be16 (ab.length + 7) ++ (ab ++ encRaw (nhRaw a)) ++
             (es.take (fitN c.maxLen 0 (c.addpathTx Fam.ipv4) (23 + (ab.length + 7)) es)).flatMap
               (encE (c.addpathTx Fam.ipv4))),
           fitN c.maxLen 0 (c.addpathTx Fam.ipv4) (23 + (ab.length + 7)) es) := by
  have hemp : es.isEmpty = false := by cases es <;> simp_all
  have hnh : (Attr.mk 3 64 (.bin a)).encode = .ok (encRaw (nhRaw a), 7) := by
    have := attr_encode (Attr.mk 3 64 (.bin a)) (by simp [kindOk, AData.binary?]) (by simp [wireValue, ha])
    rw [this]
    simp [rawOf, wireValue, ha, nhRaw, encRaw, lenField, hasExt]
  have hnl : (encRaw (nhRaw a)).length = 7 := by simp [encRaw, nhRaw, lenField, hasExt, ha]
  unfold doEncodeBody
  simp only [hattrs, Out.bind_ok, hleg, Bool.not_false, and_true, if_true, hemp, Bool.false_eq_true, if_false,
    Option.bind, Nh.v4?, hnh, Out.pure_eq]
  simp only [Out.bind_ok, Out.pure_eq, List.length_append, hnl]
  rw [putEntries_eq _ _ _ _ _ henc (fun _ => hpos)]
  simp only [Out.bind_ok, Out.pure_eq]

/-! ### decoding IPv4 / IPv6 regions -/

/-- an input entry of an IPv4 (`v6 = false`) / IPv6 family -/
def IpEntryOk (v6 : Bool) (e : Entry) : Prop :=
  ∃ addr mask, e.nlri = .ip v6 addr mask ∧ addr.length = alenOf v6 ∧ mask ≤ 8 * alenOf v6 ∧ e.pid < 4294967296

/-- what the peer decodes for an input entry -/
def decE (v6 ap : Bool) (e : Entry) : DEntry :=
  match e.nlri with
  | .ip _ addr mask => decIp v6 ap addr mask e.pid
  | .opq .. => .o e.pid false

theorem encE_ip (v6 ap : Bool) (e : Entry) (h : IpEntryOk v6 e) :
    ∃ addr mask, e.nlri = .ip v6 addr mask ∧ addr.length = alenOf v6 ∧ mask ≤ 8 * alenOf v6 ∧
      e.pid < 4294967296 ∧ encE ap e = encIp ap addr mask e.pid := by
  obtain ⟨addr, mask, hn, hl, hm, hp⟩ := h
  refine ⟨addr, mask, hn, hl, hm, hp, ?_⟩
  have hc : ceil8 mask ≤ addr.length := by rw [hl]; exact ceil8_le hm
  simp [encE, encIp, hn, Nlri.encode, hc]

theorem encOk_of_ip (v6 : Bool) (es : List Entry) (h : ∀ e ∈ es, IpEntryOk v6 e) : EncOk es := by
  intro e he
  obtain ⟨addr, mask, hn, hl, hm, _⟩ := h e he
  have hc : ceil8 mask ≤ addr.length := by rw [hl]; exact ceil8_le hm
  simp [hn, Nlri.encode, hc]

theorem ipNlriList_region (v6 ap : Bool) (es : List Entry) (h : ∀ e ∈ es, IpEntryOk v6 e) :
    ipNlriList v6 ap (es.flatMap (encE ap)) = some (es.map (decE v6 ap)) := by
  induction es with
  | nil => simp [ipNlriList]
  | cons e es ih =>
      obtain ⟨addr, mask, hn, hl, hm, hp, henc⟩ := encE_ip v6 ap e (h e (by simp))
      rw [List.flatMap_cons, henc, ipNlriList_cons v6 ap addr mask e.pid _ hl hm hp]
      rw [ih (fun x hx => h x (by simp [hx]))]
      simp [decE, hn]

theorem encE_length_ip (v6 ap : Bool) (e : Entry) (h : IpEntryOk v6 e) :
    (encE ap e).length ≤ 1 + alenOf v6 + ap4 ap := by
  obtain ⟨addr, mask, _, hl, hm, _, henc⟩ := encE_ip v6 ap e h
  have hc : ceil8 mask ≤ alenOf v6 := ceil8_le hm
  rw [henc]
  cases ap <;> simp [encIp, ap4, List.length_take] <;> omega

/-! ### the peer's view of a legacy reach frame -/

theorem nlriList_ip (od : OpaqueDec) (f : Fam) (v6 rx reach : Bool) (es : List Entry)
    (hf : isIpFam f = some v6) (hes : ∀ e ∈ es, IpEntryOk v6 e) :
    nlriList od f rx reach (es.flatMap (encE rx)) = .ok (es.map (decE v6 rx)) := by
  unfold nlriList
  by_cases he : (es.flatMap (encE rx)).isEmpty = true
  · simp only [he, if_true]
    cases es with
    | nil => rfl
    | cons e es' =>
        obtain ⟨addr, mask, _, _, _, _, henc⟩ := encE_ip v6 rx e (hes e (by simp))
        simp [henc, encIp] at he
  · simp only [he, if_false, hf, ipNlriList_region v6 rx es hes]
    simp

theorem attrBlock4_tlvs (attrs : List Attr) (h : ∀ a ∈ attrs, attrOk a = true) (extra : List RawAttr)
    (hex : ∀ r ∈ extra, RawOk r) :
    tlvs (attrBlock4 attrs ++ extra.flatMap encRaw) = (attrs.map rawOf ++ extra, true) := by
  have : attrBlock4 attrs ++ extra.flatMap encRaw = (attrs.map rawOf ++ extra).flatMap encRaw := by
    simp [attrBlock4, List.flatMap_append, List.flatMap_map]
  rw [this]
  apply tlvs_flatMap
  intro r hr
  rcases List.mem_append.mp hr with hr | hr
  · obtain ⟨a, ha, rfl⟩ := List.mem_map.mp hr
    exact rawOf_ok a (attrOk_len a (h a ha))
  · exact hex r hr

theorem hasCode_mem {code : Nat} {attrs : List Attr} (h : hasCode code attrs = true) :
    code ∈ attrs.map (·.code) := by
  simp only [hasCode, List.any_eq_true, beq_iff_eq] at h
  obtain ⟨a, ha, hc⟩ := h
  exact List.mem_map.mpr ⟨a, ha, hc⟩

theorem contains_of_mem {l : List Nat} {x : Nat} (h : x ∈ l) : l.contains x = true := by
  simp [h]

theorem be16_zero : be16 0 = [0, 0] := rfl

/-- What the peer's attribute loop makes of an encoded attribute block `ab`: the TLVs it splits into, the
    state after them and the final attribute list (after AS4 reconciliation for a 2-byte peer). -/
structure AttrPart (tb : Bool) (ab : Bytes) (fin : List Attr) where
  raws : List RawAttr
  seen : List Nat
  pre : List Attr
  hab : ab = raws.flatMap encRaw
  hraw : ∀ r ∈ raws, RawOk r
  hloop : ∀ rest, attrLoop tb {} (raws ++ rest) = attrLoop tb { seen := seen, attrs := pre } rest
  h1 : seen.contains 1 = true
  h2 : seen.contains 2 = true
  h3 : seen.contains 3 = false
  h14 : seen.contains 14 = false
  h15 : seen.contains 15 = false
  hplain : ∀ r ∈ raws, r.code ≠ 14 ∧ r.code ≠ 15
  hfin : (if tb then reconcileAs4 pre else pre) = fin

/-- the 4-octet-AS instance -/
def attrPart4 (attrs : List Attr) (hok : AttrsOk attrs)
    (h1 : hasCode 1 attrs = true) (h2 : hasCode 2 attrs = true) :
    AttrPart false (attrBlock4 attrs) (attrs.map wireAttr) where
  raws := attrs.map rawOf
  seen := (attrs.map (·.code)).reverse
  pre := attrs.map wireAttr
  hab := by simp [attrBlock4, List.flatMap_map]
  hraw := by
    intro r hr
    obtain ⟨a, ha, rfl⟩ := List.mem_map.mp hr
    exact rawOf_ok a (attrOk_len a (hok.1 a ha).1)
  hloop := by
    intro rest
    have := attrLoop_rawOf attrs hok {} (by intro x _; rfl) rest
    simpa using this
  h1 := contains_of_mem (by simp [hasCode_mem h1])
  h2 := contains_of_mem (by simp [hasCode_mem h2])
  h3 := by
    apply Bool.eq_false_iff.mpr; intro h
    simp only [List.contains_iff_mem, List.mem_reverse] at h
    obtain ⟨x, hx, hxc⟩ := List.mem_map.mp h
    exact (hok.1 x hx).2.1 hxc
  h14 := by
    apply Bool.eq_false_iff.mpr; intro h
    simp only [List.contains_iff_mem, List.mem_reverse] at h
    obtain ⟨x, hx, hxc⟩ := List.mem_map.mp h
    exact (hok.1 x hx).2.2.1 hxc
  h15 := by
    apply Bool.eq_false_iff.mpr; intro h
    simp only [List.contains_iff_mem, List.mem_reverse] at h
    obtain ⟨x, hx, hxc⟩ := List.mem_map.mp h
    exact (hok.1 x hx).2.2.2.1 hxc
  hplain := by
    intro r hr
    obtain ⟨a, ha, rfl⟩ := List.mem_map.mp hr
    have := (hok.1 a ha).2
    exact ⟨this.2.1, this.2.2.1⟩
  hfin := by simp

theorem AttrPart.tlvs_eq {tb : Bool} {ab : Bytes} {fin : List Attr} (P : AttrPart tb ab fin)
    (extra : List RawAttr) (hex : ∀ r ∈ extra, RawOk r) :
    tlvs (ab ++ extra.flatMap encRaw) = (P.raws ++ extra, true) := by
  have : ab ++ extra.flatMap encRaw = (P.raws ++ extra).flatMap encRaw := by
    rw [List.flatMap_append, ← P.hab]
  rw [this]
  apply tlvs_flatMap
  intro r hr
  rcases List.mem_append.mp hr with hr | hr
  · exact P.hraw r hr
  · exact hex r hr

theorem attrStep_nh (tb : Bool) (st : ASt) (a : Bytes) (h : st.seen.contains 3 = false) (ha : a.length = 4) :
    attrStep tb st (nhRaw a) =
      some { st with seen := 3 :: st.seen, nexthop := nhFromBytes a } := by
  have hcf : canonicalFlags 3 = some 64 := by decide
  have hdd : decodeAttrData 3 a tb = some (.bin a) := by simp [decodeAttrData, ha]
  unfold attrStep
  simp only [nhRaw, h, Bool.false_eq_true, if_false, hcf, hdd]
  simp only [show ¬ (64 / 64 % 4 ≠ 64 / 64 % 4) by decide, if_false, show ¬ (3 = 14) by decide,
    show ¬ (3 = 15) by decide, if_true, AData.binary?, Option.bind]

theorem parseUpdate_reach_legacy (od : OpaqueDec) (peer : Codec) (ab : Bytes) (fin : List Attr)
    (P : AttrPart peer.twoByte ab fin) (a : Bytes) (es : List Entry) (rx : Bool)
    (hrx : rxOf peer Fam.ipv4 = some rx) (ha : a.length = 4)
    (hne : es ≠ []) (hes : ∀ e ∈ es, IpEntryOk false e)
    (hal : ab.length + 7 < 65536) :
    parseUpdate od peer (frame 2 ([0, 0] ++ be16 (ab.length + 7) ++
        (ab ++ encRaw (nhRaw a)) ++ es.flatMap (encE rx))) =
      .msg (.upd (some (Fam.ipv4, some (.v4 a), es.map (decE false rx))) none none none fin []) := by
  have hnhl : (encRaw (nhRaw a)).length = 7 := by simp [encRaw, nhRaw, lenField, hasExt, ha]
  have hnhok : RawOk (nhRaw a) := by simp [RawOk, nhRaw, ha]
  have hregE : (es.flatMap (encE rx)).isEmpty = false := by
    cases es with
    | nil => exact absurd rfl hne
    | cons e es' =>
        obtain ⟨addr, mask, _, _, _, _, henc⟩ := encE_ip false rx e (hes e (by simp))
        simp [henc, encIp]
  unfold parseUpdate
  have hlen : ¬ (frame 2 ([0, 0] ++ be16 (ab.length + 7) ++
        (ab ++ encRaw (nhRaw a)) ++ es.flatMap (encE rx))).length < 23 := by
    simp; omega
  simp only [hlen, if_false, frame_body]
  have hsec : updateSections ([0, 0] ++ be16 (ab.length + 7) ++
        (ab ++ encRaw (nhRaw a)) ++ es.flatMap (encE rx))
      = some ⟨[], ab ++ encRaw (nhRaw a), es.flatMap (encE rx)⟩ := by
    have := updateSections_enc [] (ab ++ encRaw (nhRaw a)) (es.flatMap (encE rx))
      (by simp) (by simp [hnhl]; omega)
    simpa [be16_zero, hnhl, List.append_assoc] using this
  simp only [hsec]
  have htl : tlvs (ab ++ encRaw (nhRaw a)) = (P.raws ++ [nhRaw a], true) := by
    have := P.tlvs_eq [nhRaw a] (by intro r hr; simp at hr; rw [hr]; exact hnhok)
    simpa using this
  simp only [htl]
  rw [P.hloop [nhRaw a]]
  simp only [attrLoop]
  rw [attrStep_nh _ _ _ P.h3 ha]
  have hs1 : (3 :: P.seen).contains 1 = true := by
    rw [List.contains_cons, P.h1]; simp
  have hs2 : (3 :: P.seen).contains 2 = true := by
    rw [List.contains_cons, P.h2]; simp
  have hnf : nhFromBytes a = some (.v4 a) := by simp [nhFromBytes, ha]
  have habE : (ab ++ encRaw (nhRaw a)).isEmpty = false := by simp [encRaw]
  simp only [hregE, habE, Bool.false_eq_true, false_and, if_false, not_false_eq_true, true_or, if_true,
    hs1, hs2, not_true_eq_false, or_self, List.isEmpty_nil, hnf, Option.isNone_some,
    and_false, and_true, hrx]
  rw [nlriList_ip od Fam.ipv4 false rx true es rfl hes]
  have hmapne : (es.map (decE false rx)).isEmpty = false := by
    cases es with
    | nil => exact absurd rfl hne
    | cons _ _ => rfl
  simp [hmapne, P.hfin]

/-! ### length consistency as the spec reads it -/

theorem frameLengths_update (body : Bytes) (sec : Sections) (raws : List RawAttr)
    (h1 : updateSections body = some sec) (h2 : tlvs sec.attrs = (raws, true))
    (h3 : raws.all mpValueOk = true) : frameLengths (frame 2 body) = none := by
  unfold frameLengths
  simp only [frame_type, beNat_single, frame_body, if_true, h1, h2, h3]
  simp

theorem mpValueOk_plain (r : RawAttr) (h : r.code ≠ 14 ∧ r.code ≠ 15) : mpValueOk r = true := by
  simp [mpValueOk, h.1, h.2]

theorem reach_legacy_sections (ab a nb : Bytes) (ha : a.length = 4) (hal : ab.length + 7 < 65536) :
    updateSections ([0, 0] ++ be16 (ab.length + 7) ++ (ab ++ encRaw (nhRaw a)) ++ nb)
      = some ⟨[], ab ++ encRaw (nhRaw a), nb⟩ := by
  have hnhl : (encRaw (nhRaw a)).length = 7 := by simp [encRaw, nhRaw, lenField, hasExt, ha]
  have := updateSections_enc [] (ab ++ encRaw (nhRaw a)) nb (by simp) (by simp [hnhl]; omega)
  simpa [be16_zero, hnhl, List.append_assoc] using this

theorem reach_legacy_struct {tb : Bool} (ab : Bytes) (fin : List Attr) (P : AttrPart tb ab fin) (a nb : Bytes)
    (ha : a.length = 4) (hal : ab.length + 7 < 65536) :
    frameLengths (frame 2 ([0, 0] ++ be16 (ab.length + 7) ++ (ab ++ encRaw (nhRaw a)) ++ nb)) = none := by
  apply frameLengths_update _ _ (P.raws ++ [nhRaw a]) (reach_legacy_sections ab a nb ha hal)
  · have hnhok : RawOk (nhRaw a) := by simp [RawOk, nhRaw, ha]
    have := P.tlvs_eq [nhRaw a] (by intro r hr; simp at hr; rw [hr]; exact hnhok)
    simpa using this
  · simp only [List.all_append, Bool.and_eq_true, List.all_eq_true]
    refine ⟨fun r hr => mpValueOk_plain r (P.hplain r hr), ?_⟩
    intro r hr; simp at hr; rw [hr]; simp [mpValueOk, nhRaw]

end Rbgp.Enc
