/-
  Rbgp.Enc.Proofs.Small — KEEPALIVE, ROUTE-REFRESH, NOTIFICATION and End-of-RIB round trips and the master
  theorem for them.
-/
import Rbgp.Enc.Proofs.Single
namespace Rbgp.Enc
open Rbgp.Enc.Spec

/-- Domain of the master theorem for the one-frame messages other than OPEN. -/
def domSmall (i : Input) : Bool :=
  match i.msg with
  | .keepalive | .rr _ | .notif .. => buildable i && encodable i
  | .eor f => buildable i && encodable i && (f == Fam.ipv4 || (rxOf (negotiate i.rem i.loc) f).isSome)
  | _ => false

theorem maxFrame_ge (i : Input) : 4096 ≤ maxFrame i := by
  unfold maxFrame; split <;> omega
theorem maxFrame_le (i : Input) : maxFrame i ≤ 65535 := by
  unfold maxFrame; split <;> omega

theorem u32_parts (f : Fam) (hfa : f.afi < 65536) : famOfU32 f.u32 = f := by
  simp only [famOfU32, Fam.u32]
  rw [List.take_left' (be16_length _), beNat_be16 hfa]
  have : List.drop 3 (be16 f.afi ++ [0, f.safi]) = [f.safi] := by
    rw [show be16 f.afi ++ [0, f.safi] = (be16 f.afi ++ [0]) ++ [f.safi] by simp]
    exact List.drop_left' (by simp)
  rw [this]
  cases f; simp

/-- a canonical notification stays canonical when its data is cut -/
theorem notifCanon_take (c s : Nat) (d : Bytes) (k : Nat) (h : notifCanon c s d = (c, s, d)) :
    notifCanon c s (d.take k) = (c, s, d.take k) := by
  unfold notifCanon at h ⊢
  simp only at h ⊢
  split
  · rfl
  · split
    · simp_all
    · split
      · simp_all
      · split
        · simp_all
        · rfl

theorem master_small (p : Profile) (i : Input) (h : domSmall i = true) :
    check i (run p i) = .ok ∧ ∃ n s dec, run p i = .obs n s dec .t := by
  unfold domSmall at h
  have hge := maxFrame_ge i
  have hle := maxFrame_le i
  have hmaxF := maxLen_peer i
  have hmaxE := maxLen_enc i
  cases hm : i.msg with
  | «open» a b c d => simp [hm] at h
  | unreach f es => simp [hm] at h
  | reach f nh attrs es => simp [hm] at h
  | keepalive =>
      simp only [hm, Bool.and_eq_true] at h
      obtain ⟨hb, henc⟩ := h
      have hrun := run_single p i 4 [] .keepalive .keepalive (by rw [hm]; rfl)
        (by rw [hm]; exact doEncode_of_body (by simp [doEncodeBody]) (by rw [hmaxE]; simp; omega))
        (by rw [hmaxF]; simp; omega) (by simp)
        (by intro od; simp [parseMessage, frame_type])
        rfl rfl rfl rfl (doEncode_of_body (by simp [doEncodeBody]) (by rw [hmaxE]; simp; omega))
      refine ⟨?_, _, _, _, hrun⟩
      rw [hrun]
      apply check_single i 4 [] .keepalive hb henc (by rw [hm]; rfl) (by simp; omega) (by simp)
      · simp [frameLengths, frame_type, frame_body]
      · intro frames; simp [opaqueClause, hm]
      · intro frames; simp [contentClause, hm]
  | rr f =>
      simp only [hm, Bool.and_eq_true] at h
      obtain ⟨hb, henc⟩ := h
      have hb' := hb
      simp only [buildable, hm, Bool.and_eq_true, famOk, decide_eq_true_eq] at hb'
      obtain ⟨_, hfa, hfs⟩ := hb'
      have hbl : f.u32.length = 4 := by simp [Fam.u32]
      have hrun := run_single p i 5 f.u32 (.rr f) (.rr f) (by rw [hm]; rfl)
        (by rw [hm]; exact doEncode_of_body (by simp [doEncodeBody]) (by rw [hmaxE, frame_length, hbl]; omega))
        (by rw [hmaxF, hbl]; omega) (by rw [hbl]; omega)
        (by intro od
            simp only [parseMessage, frame_length, hbl, frame_type, beNat_single, frame_body, u32_parts f hfa]
            simp)
        rfl rfl rfl rfl (doEncode_of_body (by simp [doEncodeBody]) (by rw [hmaxE, frame_length, hbl]; omega))
      refine ⟨?_, _, _, _, hrun⟩
      rw [hrun]
      apply check_single i 5 f.u32 (.rr f) hb henc (by rw [hm]; rfl) (by rw [hbl]; omega) (by rw [hbl]; omega)
      · simp [frameLengths, frame_type, frame_body, hbl]
      · intro frames; simp [opaqueClause, hm]
      · intro frames; simp [contentClause, hm]
  | notif c s d =>
      simp only [hm, Bool.and_eq_true] at h
      obtain ⟨hb, henc⟩ := h
      have hb' := hb
      simp only [buildable, hm, Bool.and_eq_true, decide_eq_true_eq, beq_iff_eq] at hb'
      obtain ⟨_, ⟨⟨⟨hc, hs⟩, _⟩, hcan⟩⟩ := hb'
      -- the data is cut to what fits the negotiated maximum
      have hd' : ∃ d', d' = d.take (maxFrame i - 21) := ⟨_, rfl⟩
      obtain ⟨d', hd'⟩ := hd'
      have hdl : d'.length ≤ maxFrame i - 21 := by rw [hd']; simp [List.length_take]; omega
      have hcan' : notifCanon c s d' = (c, s, d') := by rw [hd']; exact notifCanon_take c s d _ hcan
      have htt : d'.take (maxFrame i - 21) = d' := by rw [hd', List.take_take]; simp
      have hbl : ([c, s] ++ d').length = 2 + d'.length := by simp; omega
      have hdoe : doEncode p (negotiate i.loc i.rem) (.notif c s d) [] = .ok (frame 3 ([c, s] ++ d'), 0) :=
        doEncode_of_body (by simp [doEncodeBody, hcan, hmaxE, hd']) (by rw [hmaxE, frame_length, hbl]; omega)
      have hdoe' : doEncode p (negotiate i.loc i.rem) (.notif c s d') [] = .ok (frame 3 ([c, s] ++ d'), 0) :=
        doEncode_of_body (by simp [doEncodeBody, hcan', hmaxE, htt]) (by rw [hmaxE, frame_length, hbl]; omega)
      have hrun := run_single p i 3 ([c, s] ++ d') (.notif c s d') (.notif c s d') (by rw [hm]; rfl)
        (by rw [hm]; exact hdoe) (by rw [hmaxF, hbl]; omega) (by rw [hbl]; omega)
        (by intro od
            have hl : ¬ (frame 3 ([c, s] ++ d')).length < 19 := by simp
            have hl2 : ¬ (frame 3 ([c, s] ++ d')).length < 21 := by simp; omega
            simp only [parseMessage, hl, if_false, frame_type, beNat_single, hl2]
            have e1 : ((frame 3 ([c, s] ++ d')).drop 19).take 1 = [c] := by rw [frame_body]; rfl
            have e2 : ((frame 3 ([c, s] ++ d')).drop 20).take 1 = [s] := by
              have : (frame 3 ([c, s] ++ d')).drop 20 = ((frame 3 ([c, s] ++ d')).drop 19).drop 1 := by
                rw [List.drop_drop]
              rw [this, frame_body]; rfl
            have e3 : (frame 3 ([c, s] ++ d')).drop 21 = d' := by
              have : (frame 3 ([c, s] ++ d')).drop 21 = ((frame 3 ([c, s] ++ d')).drop 19).drop 2 := by
                rw [List.drop_drop]
              rw [this, frame_body]; rfl
            rw [e1, e2, e3, beNat_single, beNat_single, hcan']
            simp)
        rfl rfl rfl rfl hdoe'
      refine ⟨?_, _, _, _, hrun⟩
      rw [hrun]
      apply check_single i 3 ([c, s] ++ d') (.notif c s d') hb henc (by rw [hm]; rfl) (by rw [hbl]; omega) (by rw [hbl]; omega)
      · simp [frameLengths, frame_type, frame_body]
      · intro frames; simp [opaqueClause, hm]
      · intro frames; simp [contentClause, hm, hd']
  | eor f =>
      simp only [hm, Bool.and_eq_true, Bool.or_eq_true] at h
      obtain ⟨⟨hb, henc⟩, hfam⟩ := h
      have hb' := hb
      simp only [buildable, hm, Bool.and_eq_true, famOk, decide_eq_true_eq] at hb'
      obtain ⟨_, ⟨hfa, hfs⟩, _⟩ := hb'
      by_cases hf4 : f = Fam.ipv4
      · subst hf4
        have hrun := run_single p i 2 [0, 0, 0, 0] (.eor Fam.ipv4) (.eor Fam.ipv4) (by rw [hm]; rfl)
          (by rw [hm]; exact doEncode_of_body (doEncode_eor_ipv4 p _ []) (by rw [hmaxE]; simp; omega))
          (by rw [hmaxF]; simp; omega) (by simp)
          (by intro od; rw [parseMessage_update]; exact parseUpdate_eor_ipv4 od _)
          rfl rfl rfl rfl (doEncode_of_body (doEncode_eor_ipv4 p _ []) (by rw [hmaxE]; simp; omega))
        refine ⟨?_, _, _, _, hrun⟩
        rw [hrun]
        apply check_single i 2 [0, 0, 0, 0] (.eor Fam.ipv4) hb henc (by rw [hm]; rfl) (by simp; omega) (by simp)
        · exact frameLengths_update _ ⟨[], [], []⟩ [] (by simp [updateSections, beNat]) (by simp [tlvs]) rfl
        · intro frames; simp [opaqueClause, hm]
        · intro frames; simp [contentClause, hm]
      · have hrxs : (rxOf (negotiate i.rem i.loc) f).isSome = true := by
          rcases hfam with h | h
          · exact absurd (fam_eq_ipv4 h) hf4
          · exact h
        obtain ⟨rx, hrx⟩ := Option.isSome_iff_exists.mp hrxs
        have hel : (encRaw (mpUnreachRaw f [])).length = 7 := by rw [encRaw_mpUnreach]; simp
        have hbl : ([0, 0] ++ be16 (encRaw (mpUnreachRaw f [])).length ++ encRaw (mpUnreachRaw f [])).length = 11 := by
          simp [hel]
        have hrun := run_single p i 2 ([0, 0] ++ be16 (encRaw (mpUnreachRaw f [])).length ++ encRaw (mpUnreachRaw f []))
          (.eor f) (.eor f) (by rw [hm]; rfl)
          (by rw [hm]; exact doEncode_of_body (doEncode_eor_mp p _ f [] hf4) (by rw [hmaxE, frame_length, hbl]; omega))
          (by rw [hmaxF, hbl]; omega) (by rw [hbl]; omega)
          (by intro od; rw [parseMessage_update]; exact parseUpdate_eor_mp od _ f rx hrx hfa hfs)
          rfl rfl rfl rfl (doEncode_of_body (doEncode_eor_mp p _ f [] hf4) (by rw [hmaxE, frame_length, hbl]; omega))
        refine ⟨?_, _, _, _, hrun⟩
        rw [hrun]
        apply check_single i 2 _ (.eor f) hb henc (by rw [hm]; rfl) (by rw [hbl]; omega) (by rw [hbl]; omega)
        · exact unreach_mp_struct f [] (by simp)
        · intro frames; simp [opaqueClause, hm]
        · intro frames; simp [contentClause, hm]

end Rbgp.Enc
