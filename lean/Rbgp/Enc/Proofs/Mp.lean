/-
  Rbgp.Enc.Proofs.Mp — MP_REACH_NLRI / MP_UNREACH_NLRI frames for the IPv4 / IPv6 families:
  closed form of `mp_reach_encode` / `mp_unreach_encode` inside `do_encode` and the peer's view.
-/
import Rbgp.Enc.Proofs.Update
namespace Rbgp.Enc
open Rbgp.Enc.Spec

/-- value of the MP_REACH_NLRI attribute -/
def mpReachVal (f : Fam) (nhb nb : Bytes) : Bytes :=
  be16 f.afi ++ [f.safi] ++ [nhb.length] ++ nhb ++ [0] ++ nb

def mpReachRaw (f : Fam) (nhb nb : Bytes) : RawAttr := ⟨144, 14, mpReachVal f nhb nb⟩

def mpUnreachRaw (f : Fam) (nb : Bytes) : RawAttr := ⟨144, 15, be16 f.afi ++ [f.safi] ++ nb⟩

theorem hasExt_144 : hasExt 144 = true := by decide

theorem encRaw_mpReach (f : Fam) (nhb nb : Bytes) :
    encRaw (mpReachRaw f nhb nb) =
      [144, 14] ++ be16 (mpReachVal f nhb nb).length ++ mpReachVal f nhb nb := by
  simp [encRaw, mpReachRaw, lenField, hasExt_144]

theorem encRaw_mpUnreach (f : Fam) (nb : Bytes) :
    encRaw (mpUnreachRaw f nb) =
      [144, 15] ++ be16 (3 + nb.length) ++ (be16 f.afi ++ [f.safi] ++ nb) := by
  have hl : (be16 f.afi ++ [f.safi] ++ nb).length = 3 + nb.length := by simp; omega
  simp only [encRaw, mpUnreachRaw, lenField, hasExt_144, if_true, hl]

/-- a next hop that `mp_reach_encode` writes as is for family `f`: IPv6-sized, or an IPv4 address for a family
    whose next hop is not padded (multicast; the IPv4-in-MP padding defect F4d is excluded) -/
def NhMp (f : Fam) (nh : Nh) : Prop :=
  match nh with
  | .v4 a => a.length = 4 ∧ nhAsIs f = true
  | .v6 a => a.length = 16
  | .v6ll g l => g.length = 16 ∧ l.length = 16 ∧ allOf l 0 = false

theorem nhMp_bytes (f : Fam) (nh : Nh) (h : NhMp f nh) :
    (nh.bytes.length = 4 ∨ nh.bytes.length = 16 ∨ nh.bytes.length = 32) ∧ nhFromBytes nh.bytes = some nh ∧
      ¬ (nh.bytes.length < 16 ∧ (!nhAsIs f) = true) := by
  cases nh with
  | v4 a =>
      obtain ⟨ha, has⟩ := h
      simp [Nh.bytes, nhFromBytes, ha, has]
  | v6 a =>
      simp only [NhMp] at h
      simp [Nh.bytes, nhFromBytes, h]
  | v6ll g l =>
      obtain ⟨hg, hl, hz⟩ := h
      refine ⟨?_, ?_, ?_⟩
      · right; right; simp [Nh.bytes, hg, hl]
      · simp only [Nh.bytes, nhFromBytes, List.length_append, hg, hl]
        simp [List.drop_left' hg, List.take_left' hg, hz]
      · simp [Nh.bytes, hg, hl]

/-- the model families use the plain next-hop length form -/
theorem nhPart_ip (f : Fam) (v6 : Bool) (hf : isIpFam f = some v6) :
    isFlowspec f = false ∧ isVpn f = false := by
  unfold isIpFam at hf
  unfold isFlowspec isVpn
  split at hf
  · rename_i h; obtain ⟨ha, hs⟩ := h
    refine ⟨?_, ?_⟩ <;> simp <;> omega
  · split at hf
    · rename_i _ h; obtain ⟨ha, hs⟩ := h
      refine ⟨?_, ?_⟩ <;> simp <;> omega
    · cases hf

theorem mpReachEncode_ip (p : Profile) (c : Codec) (cur : Nat) (f : Fam) (v6 : Bool) (es : List Entry) (nh : Nh)
    (n : Nat) (nb : Bytes)
    (hf : isIpFam f = some v6) (hnh : NhMp f nh) (henc : EncOk es)
    (hn : n = fitN c.maxLen 0 (c.addpathTx f) (cur + 4 + (5 + nh.bytes.length)) es)
    (hnb : nb = (es.take n).flatMap (encE (c.addpathTx f)))
    (hpos : es ≠ [] → n ≠ 0)
    (hsz : 4 + (5 + nh.bytes.length) + nb.length < 65536) :
    mpReachEncode p c cur f es (some nh) =
      .ok (encRaw (mpReachRaw f nh.bytes nb), (encRaw (mpReachRaw f nh.bytes nb)).length, n) := by
  obtain ⟨hfs, hvpn⟩ := nhPart_ip f v6 hf
  obtain ⟨hlen, _, hl16⟩ := nhMp_bytes f nh hnh
  have hmod : nh.bytes.length % 256 = nh.bytes.length := by
    rcases hlen with h' | h' | h' <;> omega
  unfold mpReachEncode
  simp only [hfs, hvpn, Bool.false_eq_true, if_false, hl16, hmod, Out.bind_ok, Out.pure_eq]
  have hhead : (be16 f.afi ++ [f.safi] ++ ([nh.bytes.length] ++ nh.bytes) ++ [0]).length = 5 + nh.bytes.length := by
    simp; omega
  simp only [hhead]
  rw [putEntries_eq _ _ _ _ _ henc (by rw [← hn]; exact hpos), ← hn, ← hnb]
  simp only [Out.bind_ok, Out.pure_eq]
  have hm2 : (4 + (5 + nh.bytes.length) + nb.length) % 65536 = 4 + (5 + nh.bytes.length) + nb.length :=
    Nat.mod_eq_of_lt hsz
  rw [hm2, subU16_ok p _ _ (by omega)]
  simp only [Out.bind_ok, Out.pure_eq]
  have hvl : (mpReachVal f nh.bytes nb).length = 5 + nh.bytes.length + nb.length := by
    simp [mpReachVal]; omega
  have hel : (encRaw (mpReachRaw f nh.bytes nb)).length = 4 + (5 + nh.bytes.length) + nb.length := by
    rw [encRaw_mpReach, List.length_append, List.length_append, hvl]; simp; omega
  rw [hel, encRaw_mpReach, hvl]
  have : 4 + (5 + nh.bytes.length) + nb.length - 4 = 5 + nh.bytes.length + nb.length := by omega
  rw [this]
  simp [mpReachVal, List.append_assoc]

theorem doEncode_reach_mp (p : Profile) (c : Codec) (f : Fam) (v6 : Bool) (attrs : List Attr) (es0 es : List Entry)
    (nh : Nh) (ab : Bytes) (n : Nat) (nb : Bytes)
    (hmp : ¬ (f = Fam.ipv4 ∧ (!c.extNh) = true))
    (hf : isIpFam f = some v6) (hnh : NhMp f nh) (henc : EncOk es)
    (hattrs : encodeAttrs p c.twoByte attrs 0 = .ok (ab, ab.length))
    (hn : n = fitN c.maxLen 0 (c.addpathTx f) (23 + ab.length + 4 + (5 + nh.bytes.length)) es)
    (hnb : nb = (es.take n).flatMap (encE (c.addpathTx f)))
    (hpos : es ≠ [] → n ≠ 0)
    (hsz : ab.length + (4 + (5 + nh.bytes.length) + nb.length) < 65536) :
    doEncodeBody p c (.reach f (some nh) attrs es0) es =
      .ok (frame 2 ([0, 0] ++ be16 (ab.length + (encRaw (mpReachRaw f nh.bytes nb)).length) ++
             (ab ++ encRaw (mpReachRaw f nh.bytes nb))), n) := by
  have hel : (encRaw (mpReachRaw f nh.bytes nb)).length = 4 + (5 + nh.bytes.length) + nb.length := by
    rw [encRaw_mpReach]; simp [mpReachVal]; omega
  unfold doEncodeBody
  simp only [hattrs, Out.bind_ok, hmp, if_false]
  rw [mpReachEncode_ip p c (23 + ab.length) f v6 es nh n nb hf hnh henc hn hnb hpos (by omega)]
  simp only [Out.bind_ok, Out.pure_eq, List.append_assoc]

/-! ### withdrawals and End-of-RIB -/

theorem doEncode_unreach_legacy (p : Profile) (c : Codec) (es0 es : List Entry)
    (hleg : c.extNh = false) (henc : EncOk es) (n : Nat) (nb : Bytes)
    (hn : n = fitN c.maxLen 2 (c.addpathTx Fam.ipv4) 21 es)
    (hnb : nb = (es.take n).flatMap (encE (c.addpathTx Fam.ipv4)))
    (hpos : es ≠ [] → n ≠ 0)
    (hsz : nb.length < 65536) :
    doEncodeBody p c (.unreach Fam.ipv4 es0) es = .ok (frame 2 (be16 nb.length ++ nb ++ [0, 0]), n) := by
  unfold doEncodeBody
  simp only [hleg, Bool.not_false, and_self, if_true]
  rw [putEntries_eq _ _ _ _ _ henc (by rw [← hn]; exact hpos), ← hn, ← hnb]
  simp only [Out.bind_ok, Out.pure_eq, Nat.mod_eq_of_lt hsz]

theorem mpUnreachEncode_eq (p : Profile) (c : Codec) (cur : Nat) (f : Fam) (es : List Entry)
    (henc : EncOk es) (n : Nat) (nb : Bytes)
    (hn : n = fitN c.maxLen 0 (c.addpathTx f) (cur + 4 + 3) es)
    (hnb : nb = (es.take n).flatMap (encE (c.addpathTx f)))
    (hpos : es ≠ [] → n ≠ 0)
    (hsz : 7 + nb.length < 65536) :
    mpUnreachEncode p c cur f es =
      .ok (encRaw (mpUnreachRaw f nb), (encRaw (mpUnreachRaw f nb)).length, n) := by
  unfold mpUnreachEncode
  have hh : (be16 f.afi ++ [f.safi]).length = 3 := by simp
  simp only [hh]
  rw [putEntries_eq _ _ _ _ _ henc (by rw [← hn]; exact hpos), ← hn, ← hnb]
  simp only [Out.bind_ok, Out.pure_eq]
  have hm2 : (4 + 3 + nb.length) % 65536 = 4 + 3 + nb.length := Nat.mod_eq_of_lt (by omega)
  rw [hm2, subU16_ok p _ _ (by omega)]
  simp only [Out.bind_ok, Out.pure_eq]
  have hel : (encRaw (mpUnreachRaw f nb)).length = 4 + 3 + nb.length := by
    rw [encRaw_mpUnreach]; simp; omega
  rw [hel, encRaw_mpUnreach]
  have : 4 + 3 + nb.length - 4 = 3 + nb.length := by omega
  rw [this]
  simp [List.append_assoc]

theorem doEncode_unreach_mp (p : Profile) (c : Codec) (f : Fam) (es0 es : List Entry)
    (hmp : ¬ (f = Fam.ipv4 ∧ (!c.extNh) = true)) (henc : EncOk es) (n : Nat) (nb : Bytes)
    (hn : n = fitN c.maxLen 0 (c.addpathTx f) (23 + 4 + 3) es)
    (hnb : nb = (es.take n).flatMap (encE (c.addpathTx f)))
    (hpos : es ≠ [] → n ≠ 0)
    (hsz : 7 + nb.length < 65536) :
    doEncodeBody p c (.unreach f es0) es =
      .ok (frame 2 ([0, 0] ++ be16 (encRaw (mpUnreachRaw f nb)).length ++ encRaw (mpUnreachRaw f nb)), n) := by
  unfold doEncodeBody
  simp only [hmp, if_false]
  rw [mpUnreachEncode_eq p c 23 f es henc n nb hn hnb hpos hsz]
  simp only [Out.bind_ok, Out.pure_eq]

theorem doEncode_eor_ipv4 (p : Profile) (c : Codec) (es : List Entry) :
    doEncodeBody p c (.eor Fam.ipv4) es = .ok (frame 2 [0, 0, 0, 0], 0) := by
  unfold doEncodeBody
  simp

theorem doEncode_eor_mp (p : Profile) (c : Codec) (f : Fam) (es : List Entry) (hf : f ≠ Fam.ipv4) :
    doEncodeBody p c (.eor f) es =
      .ok (frame 2 ([0, 0] ++ be16 (encRaw (mpUnreachRaw f [])).length ++ encRaw (mpUnreachRaw f [])), 0) := by
  unfold doEncodeBody
  simp only [ne_eq, hf, not_false_eq_true, if_true]
  rw [mpUnreachEncode_eq p c 23 f [] (by intro e he; cases he) 0 [] (by simp [fitN]) (by simp) (fun h => absurd rfl h) (by simp)]
  simp only [Out.bind_ok]
  rw [addU16_ok p _ _ (by rw [encRaw_mpUnreach]; simp)]
  simp

/-! ### the peer's view -/

theorem mpReachVal_parts (f : Fam) (nhb nb : Bytes) :
    (mpReachVal f nhb nb).take 2 = be16 f.afi ∧
    ((mpReachVal f nhb nb).drop 2).take 1 = [f.safi] ∧
    ((mpReachVal f nhb nb).drop 3).take 1 = [nhb.length] ∧
    ((mpReachVal f nhb nb).drop 4).take nhb.length = nhb ∧
    (mpReachVal f nhb nb).drop (5 + nhb.length) = nb ∧
    (mpReachVal f nhb nb).length = 5 + nhb.length + nb.length := by
  have e : mpReachVal f nhb nb = be16 f.afi ++ ([f.safi] ++ ([nhb.length] ++ (nhb ++ ([0] ++ nb)))) := by
    simp [mpReachVal]
  refine ⟨?_, ?_, ?_, ?_, ?_, ?_⟩
  · rw [e]; exact List.take_left' (be16_length _)
  · rw [e, List.drop_left' (be16_length _)]; rfl
  · rw [show mpReachVal f nhb nb = (be16 f.afi ++ [f.safi]) ++ ([nhb.length] ++ (nhb ++ ([0] ++ nb))) by simp [mpReachVal],
        List.drop_left' (by simp)]; rfl
  · rw [show mpReachVal f nhb nb = (be16 f.afi ++ [f.safi] ++ [nhb.length]) ++ (nhb ++ ([0] ++ nb)) by simp [mpReachVal],
        List.drop_left' (by simp)]
    exact List.take_left' rfl
  · rw [show mpReachVal f nhb nb = (be16 f.afi ++ [f.safi] ++ [nhb.length] ++ nhb ++ [0]) ++ nb by simp [mpReachVal]]
    exact List.drop_left' (by simp; omega)
  · simp [mpReachVal]; omega

theorem isEmpty_region_false (v6 rx : Bool) (es : List Entry) (hne : es ≠ [])
    (hes : ∀ e ∈ es, IpEntryOk v6 e) : (es.flatMap (encE rx)).isEmpty = false := by
  cases es with
  | nil => exact absurd rfl hne
  | cons e es' =>
      obtain ⟨addr, mask, _, _, _, _, henc⟩ := encE_ip v6 rx e (hes e (by simp))
      simp [henc, encIp]

theorem attrStep_mpReach (tb : Bool) (st : ASt) (f : Fam) (nhb nb : Bytes) (h : st.seen.contains 14 = false) :
    attrStep tb st (mpReachRaw f nhb nb) =
      some { st with seen := 14 :: st.seen, mpReach := some (mpReachVal f nhb nb) } := by
  have hcf : canonicalFlags 14 = some 128 := by decide
  have hdd : decodeAttrData 14 (mpReachVal f nhb nb) tb = some (.bin (mpReachVal f nhb nb)) := by
    simp [decodeAttrData]
  unfold attrStep
  simp only [mpReachRaw, h, Bool.false_eq_true, if_false, hcf, hdd]
  simp only [show ¬ (144 / 64 % 4 ≠ 128 / 64 % 4) by decide, if_false, if_true, AData.binary?]

theorem parseUpdate_reach_mp (od : OpaqueDec) (peer : Codec) (f : Fam) (v6 : Bool) (ab : Bytes) (fin : List Attr)
    (P : AttrPart peer.twoByte ab fin) (nh : Nh) (es : List Entry) (rx : Bool)
    (hrx : rxOf peer f = some rx) (hf : isIpFam f = some v6) (hfa : f.afi < 65536) (hfs : f.safi < 256)
    (hnh : NhMp f nh) (hne : es ≠ []) (hes : ∀ e ∈ es, IpEntryOk v6 e)
    (hsz : ab.length + (encRaw (mpReachRaw f nh.bytes (es.flatMap (encE rx)))).length < 65536) :
    parseUpdate od peer (frame 2 ([0, 0] ++
        be16 (ab.length + (encRaw (mpReachRaw f nh.bytes (es.flatMap (encE rx)))).length) ++
        (ab ++ encRaw (mpReachRaw f nh.bytes (es.flatMap (encE rx)))))) =
      .msg (.upd none (some (f, some nh, es.map (decE v6 rx))) none none fin []) := by
  obtain ⟨hnl, hnfb, _⟩ := nhMp_bytes f nh hnh
  obtain ⟨pt2, ps, pn, pnh, pnb, plen⟩ := mpReachVal_parts f nh.bytes (es.flatMap (encE rx))
  have hmpok : RawOk (mpReachRaw f nh.bytes (es.flatMap (encE rx))) := by
    refine ⟨?_, fun h => ?_⟩
    · have : (encRaw (mpReachRaw f nh.bytes (es.flatMap (encE rx)))).length
          = 4 + (mpReachRaw f nh.bytes (es.flatMap (encE rx))).val.length := by
        rw [encRaw_mpReach]; simp [mpReachRaw]; omega
      omega
    · simp [mpReachRaw, hasExt_144] at h
  unfold parseUpdate
  have hlen : ¬ (frame 2 ([0, 0] ++
        be16 (ab.length + (encRaw (mpReachRaw f nh.bytes (es.flatMap (encE rx)))).length) ++
        (ab ++ encRaw (mpReachRaw f nh.bytes (es.flatMap (encE rx)))))).length < 23 := by
    simp; omega
  simp only [hlen, if_false, frame_body]
  have hsec : updateSections ([0, 0] ++
        be16 (ab.length + (encRaw (mpReachRaw f nh.bytes (es.flatMap (encE rx)))).length) ++
        (ab ++ encRaw (mpReachRaw f nh.bytes (es.flatMap (encE rx)))))
      = some ⟨[], ab ++ encRaw (mpReachRaw f nh.bytes (es.flatMap (encE rx))), []⟩ := by
    have := updateSections_enc [] (ab ++ encRaw (mpReachRaw f nh.bytes (es.flatMap (encE rx)))) []
      (by simp) (by simp; omega)
    simpa [be16_zero, List.append_assoc] using this
  simp only [hsec]
  have htl : tlvs (ab ++ encRaw (mpReachRaw f nh.bytes (es.flatMap (encE rx))))
      = (P.raws ++ [mpReachRaw f nh.bytes (es.flatMap (encE rx))], true) := by
    have := P.tlvs_eq [mpReachRaw f nh.bytes (es.flatMap (encE rx))]
      (by intro r hr; simp at hr; rw [hr]; exact hmpok)
    simpa using this
  simp only [htl]
  rw [P.hloop [mpReachRaw f nh.bytes (es.flatMap (encE rx))]]
  simp only [attrLoop]
  rw [attrStep_mpReach _ _ _ _ _ P.h14]
  have hs1 : (14 :: P.seen).contains 1 = true := by
    rw [List.contains_cons, P.h1]; simp
  have hs2 : (14 :: P.seen).contains 2 = true := by
    rw [List.contains_cons, P.h2]; simp
  have hab : (ab ++ encRaw (mpReachRaw f nh.bytes (es.flatMap (encE rx)))).isEmpty = false := by
    rw [encRaw_mpReach]; simp
  simp only [List.isEmpty_nil, hab, Bool.false_eq_true, and_false, false_and, and_true, if_false,
    hs1, hs2, Option.isSome_some, not_true_eq_false, or_self, or_true, if_true]
  -- the MP_REACH_NLRI value
  have hb5 : ¬ (mpReachVal f nh.bytes (es.flatMap (encE rx))).length < 5 := by omega
  simp only [hb5, if_false, pt2, ps, pn, beNat_be16 hfa, beNat_single]
  have hfeq : (⟨f.afi, f.safi⟩ : Fam) = f := by cases f; rfl
  simp only [hfeq, hrx]
  have hb6 : ¬ (mpReachVal f nh.bytes (es.flatMap (encE rx))).length < 5 + nh.bytes.length := by omega
  simp only [hb6, if_false, pnh, pnb]
  have hnz : ¬ nh.bytes.length = 0 := by rcases hnl with h | h | h <;> omega
  have h416 : nh.bytes.length = 4 ∨ nh.bytes.length = 16 ∨ nh.bytes.length = 32 := hnl
  simp only [hnz, if_false, h416, if_true, hnfb]
  rw [nlriList_ip od f v6 rx true es hf hes]
  have hmapne : (es.map (decE v6 rx)).isEmpty = false := by
    cases es with
    | nil => exact absurd rfl hne
    | cons _ _ => rfl
  simp [hmapne, P.hfin]

theorem reconcileAs4_nil : reconcileAs4 [] = [] := by
  simp [reconcileAs4, removeFirst, reconAgg, reconPath, findFirst]

theorem parseUpdate_unreach_legacy (od : OpaqueDec) (peer : Codec) (es : List Entry) (rx : Bool)
    (hrx : rxOf peer Fam.ipv4 = some rx) (hne : es ≠ []) (hes : ∀ e ∈ es, IpEntryOk false e)
    (hsz : (es.flatMap (encE rx)).length < 65536) :
    parseUpdate od peer (frame 2 (be16 (es.flatMap (encE rx)).length ++ es.flatMap (encE rx) ++ [0, 0])) =
      .msg (.upd none none (some (Fam.ipv4, es.map (decE false rx))) none [] []) := by
  have hre := isEmpty_region_false false rx es hne hes
  unfold parseUpdate
  have hlen : ¬ (frame 2 (be16 (es.flatMap (encE rx)).length ++ es.flatMap (encE rx) ++ [0, 0])).length < 23 := by
    simp; omega
  simp only [hlen, if_false, frame_body]
  have hsec : updateSections (be16 (es.flatMap (encE rx)).length ++ es.flatMap (encE rx) ++ [0, 0])
      = some ⟨es.flatMap (encE rx), [], []⟩ := by
    have := updateSections_enc (es.flatMap (encE rx)) [] [] hsz (by simp)
    simpa [be16_zero, List.append_assoc] using this
  simp only [hsec, tlvs, attrLoop]
  simp only [List.isEmpty_nil, hre, Bool.false_eq_true, and_false, and_true, if_false, not_true_eq_false,
    Option.isSome_none, or_self, if_true, hrx]
  rw [nlriList_ip od Fam.ipv4 false rx false es rfl hes]
  have hmapne : (es.map (decE false rx)).isEmpty = false := by
    cases es with
    | nil => exact absurd rfl hne
    | cons _ _ => rfl
  simp [hmapne, reconcileAs4_nil]

theorem mpUnreach_parts (f : Fam) (nb : Bytes) :
    (be16 f.afi ++ [f.safi] ++ nb).take 2 = be16 f.afi ∧
    ((be16 f.afi ++ [f.safi] ++ nb).drop 2).take 1 = [f.safi] ∧
    (be16 f.afi ++ [f.safi] ++ nb).drop 3 = nb ∧
    (be16 f.afi ++ [f.safi] ++ nb).length = 3 + nb.length := by
  refine ⟨?_, ?_, ?_, ?_⟩
  · rw [List.append_assoc]; exact List.take_left' (be16_length _)
  · rw [List.append_assoc, List.drop_left' (be16_length _)]; rfl
  · exact List.drop_left' (by simp)
  · simp; omega

theorem attrStep_mpUnreach (tb : Bool) (st : ASt) (f : Fam) (nb : Bytes) (h : st.seen.contains 15 = false) :
    attrStep tb st (mpUnreachRaw f nb) =
      some { st with seen := 15 :: st.seen, mpUnreach := some (be16 f.afi ++ [f.safi] ++ nb) } := by
  have hcf : canonicalFlags 15 = some 128 := by decide
  have hdd : decodeAttrData 15 (be16 f.afi ++ [f.safi] ++ nb) tb = some (.bin (be16 f.afi ++ [f.safi] ++ nb)) := by
    simp [decodeAttrData]
  unfold attrStep
  simp only [mpUnreachRaw, h, Bool.false_eq_true, if_false, hcf, hdd]
  simp only [show ¬ (144 / 64 % 4 ≠ 128 / 64 % 4) by decide, if_false, show ¬ (15 = 14) by decide, if_true,
    AData.binary?]

/-- MP_UNREACH_NLRI frame with NLRI region `nb`: a withdrawal when entries are decoded, End-of-RIB when none -/
theorem parseUpdate_unreach_mp_gen (od : OpaqueDec) (peer : Codec) (f : Fam) (nb : Bytes) (dents : List DEntry) (rx : Bool)
    (hrx : rxOf peer f = some rx) (hfa : f.afi < 65536) (hfs : f.safi < 256)
    (hnl : nlriList od f rx false nb = .ok dents)
    (hsz : 7 + nb.length < 65536) :
    parseUpdate od peer (frame 2 ([0, 0] ++ be16 (encRaw (mpUnreachRaw f nb)).length ++
        encRaw (mpUnreachRaw f nb))) =
      (if dents.isEmpty then .msg (.eor f)
       else .msg (.upd none none none (some (f, dents)) [] [])) := by
  obtain ⟨pt2, ps, pnb, plen⟩ := mpUnreach_parts f nb
  have hel : (encRaw (mpUnreachRaw f nb)).length = 7 + nb.length := by
    rw [encRaw_mpUnreach]; simp; omega
  have hok : RawOk (mpUnreachRaw f nb) := by
    refine ⟨?_, fun h => ?_⟩
    · simp only [mpUnreachRaw]; omega
    · simp [mpUnreachRaw, hasExt_144] at h
  unfold parseUpdate
  have hlen : ¬ (frame 2 ([0, 0] ++ be16 (encRaw (mpUnreachRaw f nb)).length ++
        encRaw (mpUnreachRaw f nb))).length < 23 := by
    simp; omega
  simp only [hlen, if_false, frame_body]
  have hsec : updateSections ([0, 0] ++ be16 (encRaw (mpUnreachRaw f nb)).length ++
        encRaw (mpUnreachRaw f nb))
      = some ⟨[], encRaw (mpUnreachRaw f nb), []⟩ := by
    have := updateSections_enc [] (encRaw (mpUnreachRaw f nb)) [] (by simp) (by omega)
    simpa [be16_zero, List.append_assoc] using this
  simp only [hsec]
  have htl : tlvs (encRaw (mpUnreachRaw f nb)) = ([mpUnreachRaw f nb], true) := by
    have := tlvs_encRaw (mpUnreachRaw f nb) [] hok
    simpa [tlvs] using this
  simp only [htl, attrLoop]
  rw [attrStep_mpUnreach _ _ _ _ (by rfl)]
  have hab : (encRaw (mpUnreachRaw f nb)).isEmpty = false := by
    rw [encRaw_mpUnreach]; simp
  simp only [List.isEmpty_nil, hab, Bool.false_eq_true, and_false, false_and, and_true, if_false,
    not_true_eq_false, Option.isSome_none, or_self, if_true]
  have hb3 : ¬ (be16 f.afi ++ [f.safi] ++ nb).length < 3 := by omega
  have hfeq : (⟨f.afi, f.safi⟩ : Fam) = f := by cases f; rfl
  simp only [hb3, if_false, pt2, ps, pnb, beNat_be16 hfa, beNat_single, hfeq, hrx, hnl]
  cases dents with
  | nil => simp
  | cons e es' => simp [reconcileAs4_nil]

theorem parseUpdate_unreach_mp (od : OpaqueDec) (peer : Codec) (f : Fam) (v6 : Bool) (es : List Entry) (rx : Bool)
    (hrx : rxOf peer f = some rx) (hf : isIpFam f = some v6) (hfa : f.afi < 65536) (hfs : f.safi < 256)
    (hes : ∀ e ∈ es, IpEntryOk v6 e)
    (hsz : 7 + (es.flatMap (encE rx)).length < 65536) :
    parseUpdate od peer (frame 2 ([0, 0] ++ be16 (encRaw (mpUnreachRaw f (es.flatMap (encE rx)))).length ++
        encRaw (mpUnreachRaw f (es.flatMap (encE rx))))) =
      (if es = [] then .msg (.eor f)
       else .msg (.upd none none none (some (f, es.map (decE v6 rx))) [] [])) := by
  rw [parseUpdate_unreach_mp_gen od peer f _ _ rx hrx hfa hfs (nlriList_ip od f v6 rx false es hf hes) hsz]
  cases es <;> simp

/-- End-of-RIB of any negotiated family -/
theorem parseUpdate_eor_mp (od : OpaqueDec) (peer : Codec) (f : Fam) (rx : Bool)
    (hrx : rxOf peer f = some rx) (hfa : f.afi < 65536) (hfs : f.safi < 256) :
    parseUpdate od peer (frame 2 ([0, 0] ++ be16 (encRaw (mpUnreachRaw f [])).length ++
        encRaw (mpUnreachRaw f []))) = .msg (.eor f) := by
  rw [parseUpdate_unreach_mp_gen od peer f [] [] rx hrx hfa hfs (by simp [nlriList]) (by simp)]
  simp

theorem parseUpdate_eor_ipv4 (od : OpaqueDec) (peer : Codec) :
    parseUpdate od peer (frame 2 [0, 0, 0, 0]) = .msg (.eor Fam.ipv4) := by
  unfold parseUpdate
  simp [frame_body, updateSections, beNat, tlvs, attrLoop]

/-! ### length consistency of the MP / withdraw frames -/

theorem reach_mp_struct {tb : Bool} (f : Fam) (ab : Bytes) (fin : List Attr) (P : AttrPart tb ab fin)
    (nhb nb : Bytes) (hnl : nhb.length < 256)
    (hsz : ab.length + (encRaw (mpReachRaw f nhb nb)).length < 65536) :
    frameLengths (frame 2 ([0, 0] ++ be16 (ab.length + (encRaw (mpReachRaw f nhb nb)).length) ++
        (ab ++ encRaw (mpReachRaw f nhb nb)))) = none := by
  obtain ⟨_, _, pn, _, _, plen⟩ := mpReachVal_parts f nhb nb
  have hmpok : RawOk (mpReachRaw f nhb nb) := by
    refine ⟨?_, fun h => ?_⟩
    · have : (encRaw (mpReachRaw f nhb nb)).length = 4 + (mpReachRaw f nhb nb).val.length := by
        rw [encRaw_mpReach]; simp [mpReachRaw]; omega
      omega
    · simp [mpReachRaw, hasExt_144] at h
  apply frameLengths_update _ ⟨[], ab ++ encRaw (mpReachRaw f nhb nb), []⟩ (P.raws ++ [mpReachRaw f nhb nb])
  · have := updateSections_enc [] (ab ++ encRaw (mpReachRaw f nhb nb)) [] (by simp) (by simp; omega)
    simpa [be16_zero, List.append_assoc] using this
  · have := P.tlvs_eq [mpReachRaw f nhb nb] (by intro r hr; simp at hr; rw [hr]; exact hmpok)
    simpa using this
  · simp only [List.all_append, Bool.and_eq_true, List.all_eq_true]
    refine ⟨fun r hr => mpValueOk_plain r (P.hplain r hr), ?_⟩
    intro r hr; simp at hr; rw [hr]
    simp only [mpValueOk, mpReachRaw, if_true, pn, beNat_single, plen, Bool.and_eq_true, decide_eq_true_eq]
    omega

theorem unreach_legacy_struct (nb : Bytes) (hsz : nb.length < 65536) :
    frameLengths (frame 2 (be16 nb.length ++ nb ++ [0, 0])) = none := by
  apply frameLengths_update _ ⟨nb, [], []⟩ []
  · have := updateSections_enc nb [] [] hsz (by simp)
    simpa [be16_zero, List.append_assoc] using this
  · simp [tlvs]
  · rfl

theorem unreach_mp_struct (f : Fam) (nb : Bytes) (hsz : 7 + nb.length < 65536) :
    frameLengths (frame 2 ([0, 0] ++ be16 (encRaw (mpUnreachRaw f nb)).length ++ encRaw (mpUnreachRaw f nb))) = none := by
  have hel : (encRaw (mpUnreachRaw f nb)).length = 7 + nb.length := by
    rw [encRaw_mpUnreach]; simp; omega
  have hok : RawOk (mpUnreachRaw f nb) := by
    refine ⟨?_, fun h => ?_⟩
    · simp only [mpUnreachRaw, List.length_append, be16_length, List.length_cons, List.length_nil]; omega
    · simp [mpUnreachRaw, hasExt_144] at h
  apply frameLengths_update _ ⟨[], encRaw (mpUnreachRaw f nb), []⟩ [mpUnreachRaw f nb]
  · have := updateSections_enc [] (encRaw (mpUnreachRaw f nb)) [] (by simp) (by omega)
    simpa [be16_zero, List.append_assoc] using this
  · have := tlvs_encRaw (mpUnreachRaw f nb) [] hok
    simpa [tlvs] using this
  · simp [mpValueOk, mpUnreachRaw]; omega

end Rbgp.Enc
