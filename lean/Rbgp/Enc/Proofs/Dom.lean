/-
  Rbgp.Enc.Proofs.Dom — the (decidable) domain of the master theorem for UPDATE messages and what follows
  from it.
-/
import Rbgp.Enc.Proofs.Negotiate
import Rbgp.Enc.Proofs.TwoByte
namespace Rbgp.Enc
open Rbgp.Enc.Spec

/-- wire size of the attribute block towards a 4-octet-AS peer -/
def attrWire4 (attrs : List Attr) : Nat := (attrs.map (attrWireSize false)).sum

theorem encRaw_rawOf_length (a : Attr) : (encRaw (rawOf a)).length = attrWireSize false a := by
  rw [encRaw_length]
  simp only [attrWireSize, Bool.false_eq_true, false_and, if_false, tlvSize, rawOf, lenW]
  by_cases hbig : (wireValue a).length > 255
  · have := (hasExt_iff (setExt a.flags)).mp (hasExt_setExt a.flags)
    simp only [hbig, if_true, this, true_or]
  · simp only [hbig, if_false, false_or]
    split <;> omega

theorem attrBlock4_length (attrs : List Attr) : (attrBlock4 attrs).length = attrWire4 attrs := by
  induction attrs with
  | nil => rfl
  | cons a as ih =>
      simp only [attrBlock4, List.flatMap_cons, List.length_append, attrWire4, List.map_cons, List.sum_cons] at ih ⊢
      rw [encRaw_rawOf_length, ih]

/-- wire size of a model-family entry = length of its encoding -/
theorem encE_length_wire (v6 ap : Bool) (e : Entry) (h : IpEntryOk v6 e) :
    (encE ap e).length = entryWireSize ap e := by
  obtain ⟨addr, mask, hn, hl, hm, _, henc⟩ := encE_ip v6 ap e h
  have hc : ceil8 mask ≤ addr.length := by rw [hl]; exact ceil8_le hm
  rw [henc]
  simp only [entryWireSize, hn, encIp, List.length_append, List.length_cons, List.length_take, Nat.min_eq_left hc]
  cases ap <;> simp <;> omega

/-- `encodable`: every entry fits a frame of its own next to `base` bytes -/
theorem fitS_of_all (i : Input) (f : Fam) (v6 : Bool) (es : List Entry) (max tail cur base : Nat) (ap : Bool)
    (hall : es.all (fun e => entryEncodable e && decide (base + entryWireSize ap e ≤ max)) = true)
    (hes : ∀ e ∈ es, IpEntryOk v6 e) (hcur : cur + tail = base) : FitS max tail ap cur es := by
  intro e he
  have := List.all_eq_true.mp hall e he
  simp only [Bool.and_eq_true, decide_eq_true_eq] at this
  rw [encE_length_wire v6 ap e (hes e he)]
  have _ := i; have _ := f
  omega

/-- towards a 2-octet-AS peer: the AS_PATH is not one of the two things RFC 6793 cannot carry (decidable form of
    `Carriable`): a wide AS only with leading, narrow confederation segments -/
def carriableB (a : Attr) : Bool := a.code != 2 || !hasWideSegs (asSegs a) || confedLeading (asSegs a)

theorem carriableB_iff (a : Attr) : carriableB a = true ↔ Carriable a := by
  unfold carriableB Carriable
  by_cases h2 : a.code = 2
  · cases hw : hasWideSegs (asSegs a) <;> simp [h2]
  · simp [h2]

def nhIsV4 : Nh → Bool
  | .v4 _ => true
  | _ => false

/-- Domain of the master theorem, announcements: a buildable, encodable Reach of an IPv4/IPv6 unicast/multicast
    family, on a session with 4-octet AS numbers on both sides or, towards a 2-octet-AS peer, with an AS_PATH that
    RFC 6793 can carry (`carriableB`: the protocol limits F4e3 / F4e4 stay excluded); the recorded defect "IPv4 next hop padded inside
    MP_REACH_NLRI" (F4d) is excluded: an IPv4 next hop only in the legacy encoding or for a family whose next hop
    is written as is (IPv4 multicast). -/
def domReach (i : Input) : Bool :=
  match i.msg with
  | .reach f (some nh) attrs es =>
      buildable i && encodable i && (as4Both i.loc i.rem || attrs.all carriableB) && !es.isEmpty && (isIpFam f).isSome &&
      ((f == Fam.ipv4 && !extNhNegotiated i) || !nhIsV4 nh || nhAsIs f)
  | _ => false

/-- Domain of the master theorem, withdrawals. -/
def domUnreach (i : Input) : Bool :=
  match i.msg with
  | .unreach f es =>
      buildable i && encodable i && !es.isEmpty && (isIpFam f).isSome
  | _ => false

/-! ### consequences of `buildable` -/

theorem nodup_iff {l : List Nat} : nodup l = true ↔ l.Nodup := by
  induction l with
  | nil => simp [nodup]
  | cons x xs ih => simp [nodup, ih, List.nodup_cons]

theorem entryOk_ip (i : Input) (f : Fam) (v6 : Bool) (e : Entry) (hf : isIpFam f = some v6)
    (h : entryOk i f e = true) : IpEntryOk v6 e ∧ (addPathTx i f = false → e.pid = 0) := by
  simp only [entryOk, hf, Bool.and_eq_true, decide_eq_true_eq, Bool.or_eq_true, beq_iff_eq] at h
  obtain ⟨⟨hp, hap⟩, hm⟩ := h
  cases hn : e.nlri with
  | opq enc dec info => simp [hn] at hm
  | ip v6' addr mask =>
      simp only [hn, Bool.and_eq_true, beq_iff_eq, decide_eq_true_eq] at hm
      obtain ⟨⟨⟨hv, hl⟩, _⟩, hmk⟩ := hm
      subst hv
      refine ⟨⟨addr, mask, hn, ?_, ?_, hp⟩, ?_⟩
      · simpa [alenOf] using hl
      · have : addr.length = alenOf v6 := by simpa [alenOf] using hl
        rw [← this]; exact hmk
      · intro hf0
        rcases hap with h | h
        · rw [hf0] at h; cases h
        · exact h

theorem attrsOk_of (attrs : List Attr) (h1 : attrs.all attrOk = true) (h2 : nodup (attrs.map (·.code)) = true)
    (h3 : attrs.all (fun a => !reservedAttrCodes.contains a.code) = true) : AttrsOk attrs := by
  refine ⟨?_, nodup_iff.mp h2⟩
  intro a ha
  refine ⟨List.all_eq_true.mp h1 a ha, ?_⟩
  have := List.all_eq_true.mp h3 a ha
  simp only [reservedAttrCodes, Bool.not_eq_true', List.contains_eq_mem, List.mem_cons, List.not_mem_nil, or_false,
    decide_eq_false_iff_not, not_or] at this
  exact ⟨this.1, this.2.1, this.2.2.1, this.2.2.2.1, this.2.2.2.2⟩

theorem nhMp_of (f : Fam) (nh : Nh) (h : nhOk nh = true) (hv : nhIsV4 nh = false ∨ nhAsIs f = true) : NhMp f nh := by
  cases nh with
  | v4 a =>
      rcases hv with hv | hv
      · simp [nhIsV4] at hv
      · simp only [nhOk, Bool.and_eq_true, beq_iff_eq] at h
        exact ⟨h.1, hv⟩
  | v6 a => simp only [nhOk, Bool.and_eq_true, beq_iff_eq] at h; exact h.1
  | v6ll g l =>
      simp only [nhOk, Bool.and_eq_true, beq_iff_eq, Bool.not_eq_true'] at h
      obtain ⟨⟨⟨⟨hg, hl⟩, _⟩, _⟩, hz⟩ := h
      exact ⟨hg, hl, hz⟩

end Rbgp.Enc
