/-
  Rbgp.Enc.Proofs.Chunk — the "does one more entry fit" loop (`put_entries`) and the chunk loop of
  `encode_to`: what is taken, the size bound (unconditional: the loop measures the actual encoded length),
  progress, and the partition of the entry list.
-/
import Rbgp.Enc.Proofs.Tlv
namespace Rbgp.Enc

/-- wire bytes of one entry in an NLRI region -/
def encE (ap : Bool) (e : Entry) : Bytes :=
  (if ap then be32 e.pid else []) ++ (e.nlri.encode.getD [])

/-- number of entries the fit loop takes: the longest prefix whose bytes, plus `tail`, stay within `max` -/
def fitN (max tail : Nat) (ap : Bool) : Nat → List Entry → Nat
  | _, [] => 0
  | cur, e :: es =>
      if cur + (encE ap e).length + tail ≤ max then fitN max tail ap (cur + (encE ap e).length) es + 1 else 0

theorem fitN_le (max tail : Nat) (ap : Bool) (cur : Nat) (es : List Entry) :
    fitN max tail ap cur es ≤ es.length := by
  induction es generalizing cur with
  | nil => simp [fitN]
  | cons e es ih =>
      simp only [fitN]; split
      · have := ih (cur + (encE ap e).length); simp; omega
      · simp

/-- no entry's own encoder panics or refuses -/
def EncOk (es : List Entry) : Prop := ∀ e ∈ es, ∃ b, e.nlri.encode = .ok b

theorem fitLoop_eq (max tail : Nat) (ap : Bool) (cur : Nat) (es : List Entry) (h : EncOk es) :
    fitLoop max tail ap cur es =
      .ok ((es.take (fitN max tail ap cur es)).flatMap (encE ap), fitN max tail ap cur es) := by
  induction es generalizing cur with
  | nil => simp [fitLoop, fitN]
  | cons e es ih =>
      obtain ⟨nb, hnb⟩ := h e (by simp)
      have hes : EncOk es := fun e' he' => h e' (by simp [he'])
      have hb : (if ap = true then be32 e.pid else []) ++ nb = encE ap e := by simp [encE, hnb]
      simp only [fitLoop, fitN, hnb, hb]
      split
      · rw [show (do
              let x ← fitLoop max tail ap (cur + (encE ap e).length) es
              match x with
              | (bs, n) => pure (encE ap e ++ bs, n + 1) : Out (Bytes × Nat))
            = (fitLoop max tail ap (cur + (encE ap e).length) es >>= fun x =>
                 Out.ok (encE ap e ++ x.1, x.2 + 1)) from rfl]
        rw [ih _ hes]
        simp [List.take_succ_cons]
      · simp

/-- `put_entries` under progress: the fit loop's result -/
theorem putEntries_eq (max tail : Nat) (ap : Bool) (cur : Nat) (es : List Entry) (h : EncOk es)
    (hpos : es ≠ [] → fitN max tail ap cur es ≠ 0) :
    putEntries max tail ap cur es =
      .ok ((es.take (fitN max tail ap cur es)).flatMap (encE ap), fitN max tail ap cur es) := by
  unfold putEntries
  rw [fitLoop_eq max tail ap cur es h]
  simp only [Out.bind_ok]
  by_cases hes : es = []
  · subst hes; simp [fitN]
  · have := hpos hes
    simp [this]

/-- `put_entries` never returns a zero count for a non-empty list: no frame without progress -/
theorem putEntries_pos (max tail : Nat) (ap : Bool) (cur : Nat) (es : List Entry) (nb : Bytes) (n : Nat)
    (h : putEntries max tail ap cur es = .ok (nb, n)) (hes : es ≠ []) : n ≠ 0 := by
  unfold putEntries at h
  cases hf : fitLoop max tail ap cur es with
  | panic => rw [hf] at h; cases h
  | err => rw [hf] at h; cases h
  | ok r =>
      rw [hf] at h
      obtain ⟨nb', n'⟩ := r
      simp only [Out.bind_ok] at h
      intro hn
      split at h
      · cases h
      · rename_i hc
        simp only [Out.pure_eq, Out.ok.injEq, Prod.mk.injEq] at h
        apply hc
        refine ⟨by omega, ?_⟩
        cases es with
        | nil => exact absurd rfl hes
        | cons _ _ => rfl

/-- **Size bound (unconditional)**: once at least one entry has been taken, the frame plus the `tail` still to be
    written stays within the maximum. -/
theorem fitN_bound (max tail : Nat) (ap : Bool) (cur : Nat) (es : List Entry)
    (hpos : 0 < fitN max tail ap cur es) :
    cur + ((es.take (fitN max tail ap cur es)).flatMap (encE ap)).length + tail ≤ max := by
  induction es generalizing cur with
  | nil => simp [fitN] at hpos
  | cons e es ih =>
      simp only [fitN] at hpos ⊢
      split at hpos
      · rename_i hle
        simp only [hle, if_true, List.take_succ_cons, List.flatMap_cons, List.length_append]
        by_cases hp : 0 < fitN max tail ap (cur + (encE ap e).length) es
        · have := ih (cur + (encE ap e).length) hp
          omega
        · have h0 : fitN max tail ap (cur + (encE ap e).length) es = 0 := by omega
          simp [h0]; omega
      · omega

/-- Progress: the first entry fits ⇒ at least one entry is taken. -/
theorem fitN_pos (max tail : Nat) (ap : Bool) (cur : Nat) (e : Entry) (es : List Entry)
    (h : cur + (encE ap e).length + tail ≤ max) : 0 < fitN max tail ap cur (e :: es) := by
  simp [fitN, h]

/-- every entry fits a frame of its own -/
def FitS (max tail : Nat) (ap : Bool) (cur : Nat) (r : List Entry) : Prop :=
  ∀ e ∈ r, cur + (encE ap e).length + tail ≤ max

theorem FitS.drop {max tail : Nat} {ap : Bool} {cur : Nat} {r : List Entry} (n : Nat) (h : FitS max tail ap cur r) :
    FitS max tail ap cur (r.drop n) := fun e he => h e (List.mem_of_mem_drop he)

theorem FitS.take {max tail : Nat} {ap : Bool} {cur : Nat} {r : List Entry} (n : Nat) (h : FitS max tail ap cur r) :
    FitS max tail ap cur (r.take n) := fun e he => h e (List.mem_of_mem_take he)

theorem fitN_pos_of_fitS {max tail : Nat} {ap : Bool} {cur : Nat} {r : List Entry} (h : FitS max tail ap cur r)
    (hr : r ≠ []) : 0 < fitN max tail ap cur r := by
  cases r with
  | nil => exact absurd rfl hr
  | cons e rest => exact fitN_pos _ _ _ _ e rest (h e (by simp))

end Rbgp.Enc
