/-
  Rbgp.Enc.Proofs.Chunk — the "does one more entry fit" loop and the chunk loop of `encode_to`:
  what is taken, the size bound, progress, and the partition of the entry list.
-/
import Rbgp.Enc.Proofs.Tlv
namespace Rbgp.Enc

/-- wire bytes of one entry in an NLRI region -/
def encE (ap : Bool) (e : Entry) : Bytes :=
  (if ap then be32 e.pid else []) ++ (e.nlri.encode.getD [])

/-- number of entries the fit loop takes -/
def fitN (max maxLen : Nat) (ap : Bool) : Nat → List Entry → Nat
  | _, [] => 0
  | cur, e :: es => if max > cur + maxLen then fitN max maxLen ap (cur + (encE ap e).length) es + 1 else 0

theorem fitN_le (max maxLen : Nat) (ap : Bool) (cur : Nat) (es : List Entry) :
    fitN max maxLen ap cur es ≤ es.length := by
  induction es generalizing cur with
  | nil => simp [fitN]
  | cons e es ih =>
      simp only [fitN]; split
      · have := ih (cur + (encE ap e).length); simp; omega
      · simp

/-- no entry's standalone encoder panics -/
def EncOk (es : List Entry) : Prop := ∀ e ∈ es, e.nlri.encode.isSome = true

theorem fitLoop_eq (max maxLen : Nat) (ap : Bool) (cur : Nat) (es : List Entry) (h : EncOk es) :
    fitLoop max maxLen ap cur es =
      .ok ((es.take (fitN max maxLen ap cur es)).flatMap (encE ap), fitN max maxLen ap cur es) := by
  induction es generalizing cur with
  | nil => simp [fitLoop, fitN]
  | cons e es ih =>
      have he : e.nlri.encode.isSome = true := h e (by simp)
      have hes : EncOk es := fun e' he' => h e' (by simp [he'])
      simp only [fitLoop, fitN]
      split
      · obtain ⟨nb, hnb⟩ := Option.isSome_iff_exists.mp he
        simp only [hnb]
        have hb : (if ap = true then be32 e.pid else []) ++ nb = encE ap e := by simp [encE, hnb]
        simp only [hb]
        rw [show (do
              let x ← fitLoop max maxLen ap (cur + (encE ap e).length) es
              match x with
              | (bs, n) => pure (encE ap e ++ bs, n + 1) : Out (Bytes × Nat))
            = (fitLoop max maxLen ap (cur + (encE ap e).length) es >>= fun x =>
                 Out.ok (encE ap e ++ x.1, x.2 + 1)) from rfl]
        rw [ih _ hes]
        simp [List.take_succ_cons]
      · simp

/-- Size bound: once at least one entry is taken the frame stays below the maximum, with `k` bytes to
    spare when every entry is `k` bytes shorter than the reservation. -/
theorem fitN_bound_slack (max maxLen k : Nat) (ap : Bool) (cur : Nat) (es : List Entry)
    (hsz : ∀ e ∈ es, (encE ap e).length + k ≤ maxLen) (hpos : 0 < fitN max maxLen ap cur es) :
    cur + ((es.take (fitN max maxLen ap cur es)).flatMap (encE ap)).length + k < max := by
  induction es generalizing cur with
  | nil => simp [fitN] at hpos
  | cons e es ih =>
      simp only [fitN] at hpos ⊢
      split at hpos
      · rename_i hgt
        simp only [hgt, if_true, List.take_succ_cons, List.flatMap_cons, List.length_append]
        have hle := hsz e (by simp)
        by_cases hp : 0 < fitN max maxLen ap (cur + (encE ap e).length) es
        · have := ih (cur + (encE ap e).length) (fun e' he' => hsz e' (by simp [he'])) hp
          omega
        · have h0 : fitN max maxLen ap (cur + (encE ap e).length) es = 0 := by omega
          simp [h0]; omega
      · omega

theorem fitN_bound (max maxLen : Nat) (ap : Bool) (cur : Nat) (es : List Entry)
    (hsz : ∀ e ∈ es, (encE ap e).length ≤ maxLen) (hpos : 0 < fitN max maxLen ap cur es) :
    cur + ((es.take (fitN max maxLen ap cur es)).flatMap (encE ap)).length < max := by
  have := fitN_bound_slack max maxLen 0 ap cur es (by simpa using hsz) hpos
  omega

/-- Progress: a non-empty list and room for the reservation ⇒ at least one entry is taken. -/
theorem fitN_pos (max maxLen : Nat) (ap : Bool) (cur : Nat) (e : Entry) (es : List Entry)
    (h : max > cur + maxLen) : 0 < fitN max maxLen ap cur (e :: es) := by
  simp [fitN, h]

theorem fitN_zero_of_no_room (max maxLen : Nat) (ap : Bool) (cur : Nat) (es : List Entry)
    (h : ¬ max > cur + maxLen) : fitN max maxLen ap cur es = 0 := by
  cases es <;> simp [fitN, h]

end Rbgp.Enc
