/-
  Rbgp.Enc.Proofs.Fams — the four UPDATE frame families (legacy / MP × reach / unreach) as instances of
  `UpdFam`, for sessions with 4-octet AS numbers on both sides.
-/
import Rbgp.Enc.Proofs.Round
namespace Rbgp.Enc
open Rbgp.Enc.Spec

def IpS (v6 : Bool) (r : List Entry) : Prop := ∀ e ∈ r, IpEntryOk v6 e

theorem IpS.drop {v6 : Bool} {r : List Entry} (n : Nat) (h : IpS v6 r) : IpS v6 (r.drop n) :=
  fun e he => h e (List.mem_of_mem_drop he)

theorem IpS.take {v6 : Bool} {r : List Entry} (n : Nat) (h : IpS v6 r) : IpS v6 (r.take n) :=
  fun e he => h e (List.mem_of_mem_take he)

theorem take_ne_nil {α} {r : List α} {n : Nat} (hr : r ≠ []) (hn : n ≠ 0) : r.take n ≠ [] := by
  cases r with
  | nil => exact absurd rfl hr
  | cons x xs => cases n with
    | zero => exact absurd rfl hn
    | succ k => simp

/-- what the codecs of both ends must agree on (a consequence of `negotiate`, see `Negotiate.lean`) -/
structure CodecPair (enc peer : Codec) (f : Fam) : Prop where
  hmax : peer.maxLen = enc.maxLen
  hmax16 : enc.maxLen ≤ 65535
  hrx : rxOf peer f = some (enc.addpathTx f)

theorem encE_le_of_ip {v6 ap : Bool} {r : List Entry} (h : IpS v6 r) :
    ∀ e ∈ r, (encE ap e).length ≤ 1 + alenOf v6 + ap4 ap :=
  fun e he => encE_length_ip v6 ap e (h e he)

/-! ### legacy IPv4 reach -/

def reachLegacyFam (p : Profile) (enc peer : Codec) (attrs : List Attr) (es0 : List Entry) (a : Bytes)
    (ab : Bytes) (fin : List Attr) (P : AttrPart peer.twoByte ab fin)
    (hattrs : encodeAttrs p enc.twoByte attrs 0 = .ok (ab, ab.length))
    (hleg : enc.extNh = false) (ha : a.length = 4) (hc : CodecPair enc peer Fam.ipv4) :
    UpdFam p enc peer (.reach Fam.ipv4 (some (.v4 a)) attrs es0) where
  S := fun r => IpS false r ∧ FitS enc.maxLen 0 (enc.addpathTx Fam.ipv4) (23 + (ab.length + 7)) r
  hdrop := fun _ n h => ⟨h.1.drop n, h.2.drop n⟩
  hmaxeq := hc.hmax
  N := fun r => fitN enc.maxLen 0 (enc.addpathTx Fam.ipv4) (23 + (ab.length + 7)) r
  body := fun r => [0, 0] ++ be16 (ab.length + 7) ++ (ab ++ encRaw (nhRaw a)) ++
    (r.take (fitN enc.maxLen 0 (enc.addpathTx Fam.ipv4) (23 + (ab.length + 7)) r)).flatMap
      (encE (enc.addpathTx Fam.ipv4))
  Q := fun r => .upd (some (Fam.ipv4, some (.v4 a),
      (r.take (fitN enc.maxLen 0 (enc.addpathTx Fam.ipv4) (23 + (ab.length + 7)) r)).map
        (decE false (enc.addpathTx Fam.ipv4)))) none none none fin []
  hdo0 := by
    intro r hr hS
    have h16 := hc.hmax16
    exact doEncode_reach_legacy p enc attrs es0 r a ab hleg ha hattrs (encOk_of_ip false r hS.1) hr
      (Nat.pos_iff_ne_zero.mp (fitN_pos_of_fitS hS.2 hr))
  hpos := fun r hr hS => Nat.pos_iff_ne_zero.mp (fitN_pos_of_fitS hS.2 hr)
  hsize := by
    intro r hr hS
    have hpos : 0 < fitN enc.maxLen 0 (enc.addpathTx Fam.ipv4) (23 + (ab.length + 7)) r := fitN_pos_of_fitS hS.2 hr
    have hb := fitN_bound enc.maxLen 0 (enc.addpathTx Fam.ipv4) (23 + (ab.length + 7)) r hpos
    have hnl : (encRaw (nhRaw a)).length = 7 := by simp [encRaw, nhRaw, lenField, hasExt, ha]
    have h16 := hc.hmax16
    rw [hc.hmax]
    simp only [List.length_append, be16_length, hnl, List.length_cons, List.length_nil]
    omega
  hparse := by
    intro od r hr hS
    have hpos : fitN enc.maxLen 0 (enc.addpathTx Fam.ipv4) (23 + (ab.length + 7)) r ≠ 0 := Nat.pos_iff_ne_zero.mp (fitN_pos_of_fitS hS.2 hr)
    have hb := fitN_bound enc.maxLen 0 (enc.addpathTx Fam.ipv4) (23 + (ab.length + 7)) r (fitN_pos_of_fitS hS.2 hr)
    have h16 := hc.hmax16
    exact parseUpdate_reach_legacy od peer ab fin P a _ (enc.addpathTx Fam.ipv4) hc.hrx ha
      (take_ne_nil hr hpos) (hS.1.take _) (by omega)
  hstruct := by
    intro r hr hS
    have hb := fitN_bound enc.maxLen 0 (enc.addpathTx Fam.ipv4) (23 + (ab.length + 7)) r (fitN_pos_of_fitS hS.2 hr)
    have h16 := hc.hmax16
    exact reach_legacy_struct ab fin P a _ ha (by omega)

/-! ### MP_REACH_NLRI -/

theorem alenOf_le (v6 : Bool) : alenOf v6 ≤ 16 := by cases v6 <;> simp [alenOf]

def reachMpFam (p : Profile) (enc peer : Codec) (f : Fam) (v6 : Bool) (attrs : List Attr) (es0 : List Entry) (nh : Nh)
    (ab : Bytes) (fin : List Attr) (P : AttrPart peer.twoByte ab fin)
    (hattrs : encodeAttrs p enc.twoByte attrs 0 = .ok (ab, ab.length))
    (hmp : ¬ (f = Fam.ipv4 ∧ (!enc.extNh) = true)) (hf : isIpFam f = some v6)
    (hfa : f.afi < 65536) (hfs : f.safi < 256) (hnh : NhMp f nh) (hc : CodecPair enc peer f) :
    UpdFam p enc peer (.reach f (some nh) attrs es0) where
  S := fun r => IpS v6 r ∧ FitS enc.maxLen 0 (enc.addpathTx f) (23 + ab.length + 4 + (5 + nh.bytes.length)) r
  hdrop := fun _ n h => ⟨h.1.drop n, h.2.drop n⟩
  hmaxeq := hc.hmax
  N := fun r => fitN enc.maxLen 0 (enc.addpathTx f) (23 + ab.length + 4 + (5 + nh.bytes.length)) r
  body := fun r =>
    let nb := (r.take (fitN enc.maxLen 0 (enc.addpathTx f)
      (23 + ab.length + 4 + (5 + nh.bytes.length)) r)).flatMap (encE (enc.addpathTx f))
    [0, 0] ++ be16 (ab.length + (encRaw (mpReachRaw f nh.bytes nb)).length) ++ (ab ++ encRaw (mpReachRaw f nh.bytes nb))
  Q := fun r => .upd none (some (f, some nh,
      (r.take (fitN enc.maxLen 0 (enc.addpathTx f)
        (23 + ab.length + 4 + (5 + nh.bytes.length)) r)).map (decE v6 (enc.addpathTx f)))) none none fin []
  hdo0 := by
    intro r hr hS
    have h16 := hc.hmax16
    have hpos : 0 < fitN enc.maxLen 0 (enc.addpathTx f) (23 + ab.length + 4 + (5 + nh.bytes.length)) r := fitN_pos_of_fitS hS.2 hr
    have hb := fitN_bound enc.maxLen 0 (enc.addpathTx f) (23 + ab.length + 4 + (5 + nh.bytes.length)) r hpos
    exact doEncode_reach_mp p enc f v6 attrs es0 r nh ab _ _ hmp hf hnh (encOk_of_ip v6 r hS.1) hattrs rfl rfl
      (fun _ => Nat.pos_iff_ne_zero.mp hpos) (by omega)
  hpos := fun r hr hS => Nat.pos_iff_ne_zero.mp (fitN_pos_of_fitS hS.2 hr)
  hsize := by
    intro r hr hS
    have hpos : 0 < fitN enc.maxLen 0 (enc.addpathTx f) (23 + ab.length + 4 + (5 + nh.bytes.length)) r := fitN_pos_of_fitS hS.2 hr
    have hb := fitN_bound enc.maxLen 0 (enc.addpathTx f) (23 + ab.length + 4 + (5 + nh.bytes.length)) r hpos
    have h16 := hc.hmax16
    rw [hc.hmax]
    simp only [List.length_append, be16_length, List.length_cons, List.length_nil]
    rw [encRaw_mpReach]
    simp only [List.length_append, be16_length, List.length_cons, List.length_nil, mpReachVal]
    omega
  hparse := by
    intro od r hr hS
    have hpos : 0 < fitN enc.maxLen 0 (enc.addpathTx f) (23 + ab.length + 4 + (5 + nh.bytes.length)) r := fitN_pos_of_fitS hS.2 hr
    have hb := fitN_bound enc.maxLen 0 (enc.addpathTx f) (23 + ab.length + 4 + (5 + nh.bytes.length)) r hpos
    have h16 := hc.hmax16
    exact parseUpdate_reach_mp od peer f v6 ab fin P nh _ (enc.addpathTx f) hc.hrx hf hfa hfs hnh
      (take_ne_nil hr (Nat.pos_iff_ne_zero.mp hpos)) (hS.1.take _)
      (by rw [encRaw_mpReach]
          simp only [List.length_append, be16_length, List.length_cons, List.length_nil, mpReachVal]
          omega)
  hstruct := by
    intro r hr hS
    have hpos : 0 < fitN enc.maxLen 0 (enc.addpathTx f) (23 + ab.length + 4 + (5 + nh.bytes.length)) r := fitN_pos_of_fitS hS.2 hr
    have hb := fitN_bound enc.maxLen 0 (enc.addpathTx f) (23 + ab.length + 4 + (5 + nh.bytes.length)) r hpos
    have h16 := hc.hmax16
    have hnl := (nhMp_bytes f nh hnh).1
    exact reach_mp_struct f ab fin P nh.bytes _ (by rcases hnl with h | h | h <;> omega)
      (by rw [encRaw_mpReach]
          simp only [List.length_append, be16_length, List.length_cons, List.length_nil, mpReachVal]
          omega)

/-! ### withdrawals -/

def unreachLegacyFam (p : Profile) (enc peer : Codec) (es0 : List Entry)
    (hleg : enc.extNh = false) (hc : CodecPair enc peer Fam.ipv4) :
    UpdFam p enc peer (.unreach Fam.ipv4 es0) where
  S := fun r => IpS false r ∧ FitS enc.maxLen 2 (enc.addpathTx Fam.ipv4) 21 r
  hdrop := fun _ n h => ⟨h.1.drop n, h.2.drop n⟩
  hmaxeq := hc.hmax
  N := fun r => fitN enc.maxLen 2 (enc.addpathTx Fam.ipv4) 21 r
  body := fun r =>
    let nb := (r.take (fitN enc.maxLen 2 (enc.addpathTx Fam.ipv4) 21 r)).flatMap
      (encE (enc.addpathTx Fam.ipv4))
    be16 nb.length ++ nb ++ [0, 0]
  Q := fun r => .upd none none (some (Fam.ipv4,
      (r.take (fitN enc.maxLen 2 (enc.addpathTx Fam.ipv4) 21 r)).map
        (decE false (enc.addpathTx Fam.ipv4)))) none [] []
  hdo0 := by
    intro r hr hS
    have h16 := hc.hmax16
    have hpos : 0 < fitN enc.maxLen 2 (enc.addpathTx Fam.ipv4) 21 r := fitN_pos_of_fitS hS.2 hr
    have hb := fitN_bound enc.maxLen 2 (enc.addpathTx Fam.ipv4) 21 r hpos
    exact doEncode_unreach_legacy p enc es0 r hleg (encOk_of_ip false r hS.1) _ _ rfl rfl
      (fun _ => Nat.pos_iff_ne_zero.mp hpos) (by omega)
  hpos := fun r hr hS => Nat.pos_iff_ne_zero.mp (fitN_pos_of_fitS hS.2 hr)
  hsize := by
    intro r hr hS
    have hpos : 0 < fitN enc.maxLen 2 (enc.addpathTx Fam.ipv4) 21 r := fitN_pos_of_fitS hS.2 hr
    have hb := fitN_bound enc.maxLen 2 (enc.addpathTx Fam.ipv4) 21 r hpos
    have h16 := hc.hmax16
    rw [hc.hmax]
    simp only [List.length_append, be16_length, List.length_cons, List.length_nil]
    omega
  hparse := by
    intro od r hr hS
    have hpos : 0 < fitN enc.maxLen 2 (enc.addpathTx Fam.ipv4) 21 r := fitN_pos_of_fitS hS.2 hr
    have hb := fitN_bound enc.maxLen 2 (enc.addpathTx Fam.ipv4) 21 r hpos
    have h16 := hc.hmax16
    exact parseUpdate_unreach_legacy od peer _ (enc.addpathTx Fam.ipv4) hc.hrx
      (take_ne_nil hr (Nat.pos_iff_ne_zero.mp hpos)) (hS.1.take _) (by omega)
  hstruct := by
    intro r hr hS
    have hpos : 0 < fitN enc.maxLen 2 (enc.addpathTx Fam.ipv4) 21 r := fitN_pos_of_fitS hS.2 hr
    have hb := fitN_bound enc.maxLen 2 (enc.addpathTx Fam.ipv4) 21 r hpos
    have h16 := hc.hmax16
    exact unreach_legacy_struct _ (by omega)

def unreachMpFam (p : Profile) (enc peer : Codec) (f : Fam) (v6 : Bool) (es0 : List Entry)
    (hmp : ¬ (f = Fam.ipv4 ∧ (!enc.extNh) = true)) (hf : isIpFam f = some v6)
    (hfa : f.afi < 65536) (hfs : f.safi < 256) (hc : CodecPair enc peer f) :
    UpdFam p enc peer (.unreach f es0) where
  S := fun r => IpS v6 r ∧ FitS enc.maxLen 0 (enc.addpathTx f) (23 + 4 + 3) r
  hdrop := fun _ n h => ⟨h.1.drop n, h.2.drop n⟩
  hmaxeq := hc.hmax
  N := fun r => fitN enc.maxLen 0 (enc.addpathTx f) (23 + 4 + 3) r
  body := fun r =>
    let nb := (r.take (fitN enc.maxLen 0 (enc.addpathTx f) (23 + 4 + 3) r)).flatMap
      (encE (enc.addpathTx f))
    [0, 0] ++ be16 (encRaw (mpUnreachRaw f nb)).length ++ encRaw (mpUnreachRaw f nb)
  Q := fun r => .upd none none none (some (f,
      (r.take (fitN enc.maxLen 0 (enc.addpathTx f) (23 + 4 + 3) r)).map
        (decE v6 (enc.addpathTx f)))) [] []
  hdo0 := by
    intro r hr hS
    have h16 := hc.hmax16
    have hpos : 0 < fitN enc.maxLen 0 (enc.addpathTx f) (23 + 4 + 3) r := fitN_pos_of_fitS hS.2 hr
    have hb := fitN_bound enc.maxLen 0 (enc.addpathTx f) (23 + 4 + 3) r hpos
    exact doEncode_unreach_mp p enc f es0 r hmp (encOk_of_ip v6 r hS.1)
      (fitN enc.maxLen 0 (enc.addpathTx f) (23 + 4 + 3) r)
      ((r.take (fitN enc.maxLen 0 (enc.addpathTx f) (23 + 4 + 3) r)).flatMap
        (encE (enc.addpathTx f))) rfl rfl (fun _ => Nat.pos_iff_ne_zero.mp hpos) (by omega)
  hpos := fun r hr hS => Nat.pos_iff_ne_zero.mp (fitN_pos_of_fitS hS.2 hr)
  hsize := by
    intro r hr hS
    have hpos : 0 < fitN enc.maxLen 0 (enc.addpathTx f) (23 + 4 + 3) r := fitN_pos_of_fitS hS.2 hr
    have hb := fitN_bound enc.maxLen 0 (enc.addpathTx f) (23 + 4 + 3) r hpos
    have h16 := hc.hmax16
    rw [hc.hmax]
    simp only [List.length_append, be16_length, List.length_cons, List.length_nil]
    rw [encRaw_mpUnreach]
    simp only [List.length_append, be16_length, List.length_cons, List.length_nil]
    omega
  hparse := by
    intro od r hr hS
    have hpos : 0 < fitN enc.maxLen 0 (enc.addpathTx f) (23 + 4 + 3) r := fitN_pos_of_fitS hS.2 hr
    have hb := fitN_bound enc.maxLen 0 (enc.addpathTx f) (23 + 4 + 3) r hpos
    have h16 := hc.hmax16
    have hne := take_ne_nil hr (Nat.pos_iff_ne_zero.mp hpos)
    have := parseUpdate_unreach_mp od peer f v6
      (r.take (fitN enc.maxLen 0 (enc.addpathTx f) (23 + 4 + 3) r))
      (enc.addpathTx f) hc.hrx hf hfa hfs (hS.1.take _) (by omega)
    rw [this, if_neg hne]
  hstruct := by
    intro r hr hS
    have hpos : 0 < fitN enc.maxLen 0 (enc.addpathTx f) (23 + 4 + 3) r := fitN_pos_of_fitS hS.2 hr
    have hb := fitN_bound enc.maxLen 0 (enc.addpathTx f) (23 + 4 + 3) r hpos
    have h16 := hc.hmax16
    exact unreach_mp_struct f _ (by omega)

end Rbgp.Enc
