/-
  Rbgp.Enc.Proofs.Attr — `Attribute::encode` produces a TLV the reader inverts; the attribute
  loop of the decoder returns the attribute (with the EXTENDED-LENGTH bit possibly set).
-/
import Rbgp.Enc.Proofs.Chunk
import Rbgp.Enc.Spec
namespace Rbgp.Enc
open Rbgp.Enc.Spec

/-- the TLV `Attribute::encode` writes for a well-formed attribute -/
def rawOf (a : Attr) : RawAttr :=
  ⟨if (wireValue a).length > 255 then setExt a.flags else a.flags, a.code, wireValue a⟩

theorem hasExt_setExt (f : Nat) : hasExt (setExt f) = true := by
  unfold setExt
  by_cases h : hasExt f = true
  · simp [h]
  · have h0 : f / 16 % 2 = 0 := by
      have : ¬ f / 16 % 2 = 1 := fun hc => h ((hasExt_iff f).mpr hc)
      omega
    have he0 : hasExt f = false := by simpa using h
    simp only [he0, Bool.false_eq_true, if_false]
    rw [hasExt_iff]; omega

theorem setExt_hi (f : Nat) : setExt f / 64 = f / 64 := by
  unfold setExt
  by_cases h : hasExt f = true
  · simp [h]
  · have h0 : f / 16 % 2 = 0 := by
      have : ¬ f / 16 % 2 = 1 := fun hc => h ((hasExt_iff f).mpr hc)
      omega
    have he0 : hasExt f = false := by simpa using h
    simp only [he0, Bool.false_eq_true, if_false]; omega

theorem rawOf_ok (a : Attr) (h : (wireValue a).length < 65536) : RawOk (rawOf a) := by
  refine ⟨h, ?_⟩
  simp only [rawOf]
  split
  · intro hc; rw [hasExt_setExt] at hc; cases hc
  · intro _; omega

theorem rawOf_flags_hi (a : Attr) : (rawOf a).flags / 64 = a.flags / 64 := by
  simp only [rawOf]; split
  · exact setExt_hi _
  · rfl

/-- data kind demanded by `Attribute::encode` for the code -/
def kindOk (a : Attr) : Prop :=
  if a.code = 1 ∨ a.code = 4 ∨ a.code = 5 ∨ a.code = 9 then (∃ v, a.data = .val v)
  else a.data.binary?.isSome = true

theorem attr_encode (a : Attr) (hk : kindOk a) (hl : (wireValue a).length < 65536) :
    a.encode = .ok (encRaw (rawOf a), (encRaw (rawOf a)).length % 65536) := by
  unfold kindOk at hk
  unfold Attr.encode
  by_cases h1 : a.code = 1
  · simp only [h1, true_or, if_true] at hk
    obtain ⟨v, hv⟩ := hk
    have hw : wireValue a = [v % 256] := by simp [wireValue, hv, h1]
    simp only [h1, if_true, hv]
    simp [rawOf, hw, encRaw, lenField, h1]
  · by_cases h4 : a.code = 4 ∨ a.code = 5 ∨ a.code = 9
    · have hk' : ∃ v, a.data = .val v := by
        have : a.code = 1 ∨ a.code = 4 ∨ a.code = 5 ∨ a.code = 9 := Or.inr h4
        simpa [this] using hk
      obtain ⟨v, hv⟩ := hk'
      have hw : wireValue a = be32 v := by simp [wireValue, hv, h1]
      simp only [h1, if_false, h4, if_true, hv]
      simp [rawOf, hw, encRaw, lenField]
    · have hn : ¬ (a.code = 1 ∨ a.code = 4 ∨ a.code = 5 ∨ a.code = 9) := by
        intro hc; rcases hc with hc | hc
        · exact h1 hc
        · exact h4 hc
      simp only [hn, if_false] at hk
      obtain ⟨bin, hb⟩ := Option.isSome_iff_exists.mp hk
      have hw : wireValue a = bin := by
        cases hd : a.data with
        | val v => simp [AData.binary?, hd] at hb
        | bin b => simp [AData.binary?, hd] at hb; simp [wireValue, hd, hb]
        | opq b => simp [AData.binary?, hd] at hb; simp [wireValue, hd, hb]
      rw [hw] at hl
      simp only [h1, if_false, h4, hb]
      have hmod : bin.length % 65536 = bin.length := Nat.mod_eq_of_lt hl
      by_cases hbig : bin.length > 255
      · simp only [hbig, if_true, hasExt_setExt, hmod]
        simp [rawOf, hw, hbig, encRaw, lenField, hasExt_setExt]
      · simp only [hbig, if_false]
        by_cases he : hasExt a.flags = true
        · simp only [he, if_true, hmod]
          simp [rawOf, hw, hbig, encRaw, lenField, he]
        · have he0 : hasExt a.flags = false := by simpa using he
          have hm2 : bin.length % 256 = bin.length := Nat.mod_eq_of_lt (by omega)
          simp only [he0, Bool.false_eq_true, if_false, hm2]
          simp [rawOf, hw, hbig, encRaw, lenField, he0]


/-! ### from `attrOk` -/

theorem decodeAttrData_bin_of_other (code : Nat) (v : Bytes) (d : AData)
    (hc : ¬ (code = 1 ∨ code = 4 ∨ code = 5 ∨ code = 9))
    (h : decodeAttrData code v false = some d) : ∃ b, d = .bin b := by
  unfold decodeAttrData at h
  have h1 : ¬ code = 1 := fun x => hc (Or.inl x)
  have h4 : ¬ (code = 4 ∨ code = 5 ∨ code = 9) := fun x => hc (Or.inr x)
  simp only [h1, if_false, h4, Bool.false_eq_true] at h
  -- every remaining arm returns `none` or `some (.bin _)`
  have fin : ∀ (o : Option AData), o = some d → (o = none ∨ ∃ b, o = some (.bin b)) → ∃ b, d = .bin b := by
    intro o ho hcase
    rcases hcase with hn | ⟨b, hb⟩
    · rw [hn] at ho; cases ho
    · rw [hb] at ho; injection ho with ho; exact ⟨b, ho.symm⟩
  apply fin _ h
  by_cases c2 : code = 2
  · simp only [c2, if_true]
    repeat' split
    all_goals first | exact Or.inr ⟨_, rfl⟩ | exact Or.inl rfl
  · simp only [c2, if_false]
    by_cases c6 : code = 6
    · simp only [c6, if_true]
      repeat' split
      all_goals first | exact Or.inr ⟨_, rfl⟩ | exact Or.inl rfl
    · simp only [c6, if_false]
      by_cases c7 : code = 7
      · simp only [c7, if_true]
        repeat' split
        all_goals first | exact Or.inr ⟨_, rfl⟩ | exact Or.inl rfl
      · simp only [c7, if_false]
        by_cases c8 : code = 8 ∨ code = 10
        · simp only [c8, if_true]
          repeat' split
          all_goals first | exact Or.inr ⟨_, rfl⟩ | exact Or.inl rfl
        · simp only [c8, if_false]
          by_cases c16 : code = 16
          · simp only [c16, if_true]
            repeat' split
            all_goals first | exact Or.inr ⟨_, rfl⟩ | exact Or.inl rfl
          · simp only [c16, if_false]
            by_cases c32 : code = 32
            · simp only [c32, if_true]
              repeat' split
              all_goals first | exact Or.inr ⟨_, rfl⟩ | exact Or.inl rfl
            · simp only [c32, if_false]
              by_cases c17 : code = 17
              · simp only [c17, if_true]
                repeat' split
                all_goals first | exact Or.inr ⟨_, rfl⟩ | exact Or.inl rfl
              · simp only [c17, if_false]
                by_cases c18 : code = 18
                · simp only [c18, if_true]
                  repeat' split
                  all_goals first | exact Or.inr ⟨_, rfl⟩ | exact Or.inl rfl
                · simp only [c18, if_false]
                  by_cases c3 : code = 3
                  · simp only [c3, if_true]
                    repeat' split
                    all_goals first | exact Or.inr ⟨_, rfl⟩ | exact Or.inl rfl
                  · simp only [c3, if_false]
                    by_cases c26 : code = 26
                    · simp only [c26, if_true]
                      repeat' split
                      all_goals first | exact Or.inr ⟨_, rfl⟩ | exact Or.inl rfl
                    · simp only [c26, if_false]; exact Or.inr ⟨v, rfl⟩

theorem attrOk_len (a : Attr) (h : attrOk a = true) : (wireValue a).length < 65536 := by
  simp only [attrOk, Bool.and_eq_true, decide_eq_true_eq] at h
  omega

theorem attrOk_kind (a : Attr) (h : attrOk a = true) : kindOk a := by
  simp only [attrOk, Bool.and_eq_true, decide_eq_true_eq] at h
  obtain ⟨_, hm⟩ := h
  unfold kindOk
  cases hcf : canonicalFlags a.code with
  | none =>
      simp only [hcf] at hm
      have hn : ¬ (a.code = 1 ∨ a.code = 4 ∨ a.code = 5 ∨ a.code = 9) := by
        intro hc; unfold canonicalFlags at hcf
        rcases hc with hc | hc | hc | hc <;> simp [hc] at hcf
      simp only [hn, if_false]
      cases hd : a.data with
      | val v => simp [hd] at hm
      | bin b => simp [hd] at hm
      | opq b => simp [AData.binary?]
  | some exp =>
      simp only [hcf, Bool.and_eq_true, beq_iff_eq] at hm
      obtain ⟨_, hdec⟩ := hm
      by_cases hc : a.code = 1 ∨ a.code = 4 ∨ a.code = 5 ∨ a.code = 9
      · simp only [hc, if_true]
        cases hd : a.data with
        | val v => exact ⟨v, rfl⟩
        | bin b =>
            exfalso
            rw [hd] at hdec
            have hw : wireValue a = b := by simp [wireValue, hd]
            rw [hw] at hdec
            unfold decodeAttrData at hdec
            rcases hc with hc | hc
            · simp only [hc, if_true] at hdec
              split at hdec
              · split at hdec <;> cases hdec
              · cases hdec
            · have h1 : ¬ a.code = 1 := by rcases hc with hc | hc | hc <;> omega
              simp only [h1, if_false, hc, if_true] at hdec
              split at hdec <;> cases hdec
        | opq b =>
            exfalso
            rw [hd] at hdec
            have hw : wireValue a = b := by simp [wireValue, hd]
            rw [hw] at hdec
            unfold decodeAttrData at hdec
            rcases hc with hc | hc
            · simp only [hc, if_true] at hdec
              split at hdec
              · split at hdec <;> cases hdec
              · cases hdec
            · have h1 : ¬ a.code = 1 := by rcases hc with hc | hc | hc <;> omega
              simp only [h1, if_false, hc, if_true] at hdec
              split at hdec <;> cases hdec
      · simp only [hc, if_false]
        obtain ⟨b, hb⟩ := decodeAttrData_bin_of_other _ _ _ hc hdec
        simp [hb, AData.binary?]

/-! ### the decoder's attribute loop on `rawOf` -/

/-- the attribute as the peer stores it: same code and data, flags as on the wire -/
def wireAttr (a : Attr) : Attr := ⟨a.code, (rawOf a).flags, a.data⟩

theorem canonAttr_wireAttr (a : Attr) (h : attrOk a = true) : canonAttr (wireAttr a) = canonAttr a := by
  simp only [canonAttr, wireAttr, rawOf]
  split
  · -- flags got the EXTENDED bit
    congr 1
    unfold clearExt setExt
    by_cases he : hasExt a.flags = true
    · simp [he]
    · have he0 : hasExt a.flags = false := by simpa using he
      have h0 : a.flags / 16 % 2 = 0 := by
        have : ¬ a.flags / 16 % 2 = 1 := fun hc => he ((hasExt_iff _).mpr hc)
        omega
      simp only [he0, Bool.false_eq_true, if_false]
      have h1 : (a.flags + 16) / 16 % 2 = 1 := by omega
      rw [if_pos h1, if_neg (by omega)]
      omega
  · rfl

/-- not one of the codes that the UPDATE arm treats specially -/
def plainCode (c : Nat) : Prop := c ≠ 3 ∧ c ≠ 14 ∧ c ≠ 15 ∧ c ≠ 17 ∧ c ≠ 18

theorem attrStep_rawOf (a : Attr) (h : attrOk a = true) (hp : plainCode a.code) (st : ASt)
    (hseen : st.seen.contains a.code = false) :
    attrStep false st (rawOf a) =
      some { st with seen := a.code :: st.seen, attrs := st.attrs ++ [wireAttr a] } := by
  obtain ⟨h3, h14, h15, h17, h18⟩ := hp
  have hcode : (rawOf a).code = a.code := rfl
  have hval : (rawOf a).val = wireValue a := rfl
  have hhi := rawOf_flags_hi a
  unfold attrStep
  simp only [hcode, hseen, Bool.false_eq_true, if_false, hval]
  simp only [attrOk, Bool.and_eq_true, decide_eq_true_eq] at h
  obtain ⟨⟨⟨⟨_, hfl⟩, _⟩, _⟩, hm⟩ := h
  cases hcf : canonicalFlags a.code with
  | none =>
      simp only [hcf] at hm ⊢
      simp only [Bool.and_eq_true, beq_iff_eq] at hm
      obtain ⟨hd, hf⟩ := hm
      have hf1 : ¬ (rawOf a).flags / 128 % 2 = 0 := by omega
      have hf2 : (rawOf a).flags / 64 % 2 = 1 := by omega
      simp only [hf1, if_false, hf2, if_true]
      cases hdd : a.data with
      | val v => simp [hdd] at hd
      | bin b => simp [hdd] at hd
      | opq b => simp [wireAttr, wireValue, hdd]
  | some exp =>
      simp only [hcf, Bool.and_eq_true, beq_iff_eq] at hm ⊢
      obtain ⟨hf, hdec⟩ := hm
      have hf' : ¬ (rawOf a).flags / 64 % 4 ≠ exp / 64 % 4 := by
        rw [hhi]; simp [hf]
      simp only [hf', if_false, hdec, h14, h15, h3]
      have : ¬ ((a.code = 17 ∨ a.code = 18) ∧ (!false) = true) := by
        intro ⟨hc, _⟩; rcases hc with hc | hc
        · exact h17 hc
        · exact h18 hc
      simp only [this, if_false]
      rfl

/-- input attributes: well-formed, distinct plain codes -/
def AttrsOk (attrs : List Attr) : Prop :=
  (∀ a ∈ attrs, attrOk a = true ∧ plainCode a.code) ∧ (attrs.map (·.code)).Nodup

theorem attrLoop_rawOf (attrs : List Attr) (h : AttrsOk attrs) (st : ASt)
    (hfresh : ∀ a ∈ attrs, st.seen.contains a.code = false) (rest : List RawAttr) :
    attrLoop false st (attrs.map rawOf ++ rest) =
      attrLoop false { st with seen := (attrs.map (·.code)).reverse ++ st.seen,
                               attrs := st.attrs ++ attrs.map wireAttr } rest := by
  induction attrs generalizing st with
  | nil => simp
  | cons a as ih =>
      obtain ⟨hall, hnd⟩ := h
      have ha := hall a (by simp)
      simp only [List.map_cons, List.cons_append, attrLoop]
      rw [attrStep_rawOf a ha.1 ha.2 st (hfresh a (by simp))]
      simp only
      have hnd' : (as.map (·.code)).Nodup := (List.nodup_cons.mp hnd).2
      have hnotin : a.code ∉ as.map (·.code) := (List.nodup_cons.mp hnd).1
      rw [ih ⟨fun x hx => hall x (by simp [hx]), hnd'⟩]
      · simp [List.append_assoc]
      · intro x hx
        have hxs := hfresh x (by simp [hx])
        have hne : x.code ≠ a.code := by
          intro hc; apply hnotin; rw [← hc]; exact List.mem_map_of_mem hx
        simp only [List.contains_cons, Bool.or_eq_false_iff]
        exact ⟨by simpa using hne, hxs⟩

end Rbgp.Enc
