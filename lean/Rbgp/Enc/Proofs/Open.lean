/-
  Rbgp.Enc.Proofs.Open — OPEN round trip (capability block ≤ 253 bytes) and the master theorem for OPEN.
-/
import Rbgp.Enc.Proofs.Caps
namespace Rbgp.Enc
open Rbgp.Enc.Spec

theorem decodeCaps_enc (caps : List Cap) (h : ∀ c ∈ caps, capOk c = true) :
    decodeCaps (caps.map (fun c => (capCode c, capValue c))) = some (caps.map canonCap) := by
  induction caps with
  | nil => rfl
  | cons c cs ih =>
      simp only [List.map_cons, decodeCaps, decodeCap_enc c (h c (by simp)), ih (fun x hx => h x (by simp [hx]))]

theorem capBytes_length (c : Cap) : (capBytes c).length = capWireSize c := by
  cases c with
  | mp f => simp [capBytes, capValue, capWireSize]
  | rr => simp [capBytes, capValue, capWireSize]
  | em => simp [capBytes, capValue, capWireSize]
  | err => simp [capBytes, capValue, capWireSize]
  | as4 n => simp [capBytes, capValue, capWireSize]
  | enh v =>
      have : (capValue (.enh v)).length = v.length * 6 := flatMap_length_const v _ 6 (by intro x _; simp [Fam.u32])
      simp only [capBytes, List.length_append, this, capWireSize, List.length_cons, List.length_nil]; omega
  | ap v =>
      have : (capValue (.ap v)).length = v.length * 4 := flatMap_length_const v _ 4 (by intro x _; simp)
      simp only [capBytes, List.length_append, this, capWireSize, List.length_cons, List.length_nil]; omega
  | llgr v =>
      have : (capValue (.llgr v)).length = v.length * 7 := flatMap_length_const v _ 7 (by intro x _; simp)
      simp only [capBytes, List.length_append, this, capWireSize, List.length_cons, List.length_nil]; omega
  | gr flags time fams =>
      have : (capValue (.gr flags time fams)).length = fams.length * 4 + 2 := by
        simp only [capValue, List.length_append, be16_length]
        rw [flatMap_length_const fams _ 4 (by intro x _; simp)]; omega
      simp only [capBytes, List.length_append, this, capWireSize, List.length_cons, List.length_nil]; omega
  | fqdn h d => simp [capBytes, capValue, capWireSize]; omega
  | unk code bin => simp [capBytes, capValue, capWireSize]; omega

theorem capsBlock_length (caps : List Cap) : (caps.flatMap capBytes).length = (caps.map capWireSize).sum := by
  induction caps with
  | nil => rfl
  | cons c cs ih => simp [List.flatMap_cons, capBytes_length, ih]

/-- value lengths fit their one-octet length when the block fits -/
theorem capValue_lt (caps : List Cap) (h : (caps.flatMap capBytes).length < 256) :
    ∀ c ∈ caps, (capValue c).length < 256 := by
  induction caps with
  | nil => intro c hc; cases hc
  | cons x xs ih =>
      intro c hc
      simp only [List.flatMap_cons, List.length_append] at h
      rcases List.mem_cons.mp hc with rfl | hc
      · have : (capBytes c).length = 2 + (capValue c).length := by simp [capBytes]; omega
        omega
      · exact ih (by omega) c hc

/-- fixed part of an OPEN body -/
def openFixed (asn hold rid : Nat) : Bytes :=
  [4] ++ be16 (if asn > 65535 then TRANS_ASN else asn) ++ be16 hold ++ be32 rid

def openBody (asn hold rid : Nat) (caps : List Cap) : Bytes :=
  if caps.isEmpty then openFixed asn hold rid ++ [0]
  else openFixed asn hold rid ++ [(caps.flatMap capBytes).length + 2, 2, (caps.flatMap capBytes).length] ++ caps.flatMap capBytes

theorem doEncode_open (p : Profile) (c : Codec) (asn hold rid : Nat) (caps : List Cap) (es : List Entry)
    (h : ∀ x ∈ caps, capOk x = true) (hs : (caps.flatMap capBytes).length + 2 < 256) :
    doEncode p c (.open asn hold rid caps) es = .ok (frame 1 (openBody asn hold rid caps), 0) := by
  unfold doEncode openBody openFixed
  by_cases he : caps.isEmpty = true
  · simp [he]
  · have he' : caps.isEmpty = false := by simpa using he
    simp only [he', Bool.false_eq_true, if_false]
    rw [encodeCaps_eq p caps 0 h (by omega)]
    simp only [Out.bind_ok, Nat.zero_add]
    rw [addU8_ok p _ _ (by omega)]
    simp only [Out.bind_ok, Out.pure_eq]

end Rbgp.Enc
