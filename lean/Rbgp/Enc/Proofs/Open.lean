/-
  Rbgp.Enc.Proofs.Open — OPEN round trip (capability block ≤ 253 bytes) and the master theorem for OPEN.
-/
import Rbgp.Enc.Proofs.Caps
namespace Rbgp.Enc
open Rbgp.Enc.Spec

theorem decodeCaps_enc (caps : List Cap) (h : ∀ c ∈ caps, capOk c = true) :
    decodeCaps (caps.map (fun c => (capCode c, capValue c))) = some (caps.map canonCap) := by
  induction caps with
  | nil => rfl
  | cons c cs ih =>
      simp only [List.map_cons, decodeCaps, decodeCap_enc c (h c (by simp)), ih (fun x hx => h x (by simp [hx]))]

theorem capBytes_length (c : Cap) : (capBytes c).length = capWireSize c := by
  cases c with
  | mp f => simp [capBytes, capValue, capWireSize]
  | rr => simp [capBytes, capValue, capWireSize]
  | em => simp [capBytes, capValue, capWireSize]
  | err => simp [capBytes, capValue, capWireSize]
  | as4 n => simp [capBytes, capValue, capWireSize]
  | enh v =>
      have : (capValue (.enh v)).length = v.length * 6 := flatMap_length_const v _ 6 (by intro x _; simp [Fam.u32])
      simp only [capBytes, List.length_append, this, capWireSize, List.length_cons, List.length_nil]; omega
  | ap v =>
      have : (capValue (.ap v)).length = v.length * 4 := flatMap_length_const v _ 4 (by intro x _; simp)
      simp only [capBytes, List.length_append, this, capWireSize, List.length_cons, List.length_nil]; omega
  | llgr v =>
      have : (capValue (.llgr v)).length = v.length * 7 := flatMap_length_const v _ 7 (by intro x _; simp)
      simp only [capBytes, List.length_append, this, capWireSize, List.length_cons, List.length_nil]; omega
  | gr flags time fams =>
      have : (capValue (.gr flags time fams)).length = fams.length * 4 + 2 := by
        simp only [capValue, List.length_append, be16_length]
        rw [flatMap_length_const fams _ 4 (by intro x _; simp)]; omega
      simp only [capBytes, List.length_append, this, capWireSize, List.length_cons, List.length_nil]; omega
  | fqdn h d => simp [capBytes, capValue, capWireSize]; omega
  | unk code bin => simp [capBytes, capValue, capWireSize]; omega

theorem capsBlock_length (caps : List Cap) : (caps.flatMap capBytes).length = (caps.map capWireSize).sum := by
  induction caps with
  | nil => rfl
  | cons c cs ih => simp [List.flatMap_cons, capBytes_length, ih]

/-- value lengths fit their one-octet length when the block fits -/
theorem capValue_lt (caps : List Cap) (h : (caps.flatMap capBytes).length < 256) :
    ∀ c ∈ caps, (capValue c).length < 256 := by
  induction caps with
  | nil => intro c hc; cases hc
  | cons x xs ih =>
      intro c hc
      simp only [List.flatMap_cons, List.length_append] at h
      rcases List.mem_cons.mp hc with rfl | hc
      · have : (capBytes c).length = 2 + (capValue c).length := by simp [capBytes]; omega
        omega
      · exact ih (by omega) c hc

/-- fixed part of an OPEN body -/
def openFixed (asn hold rid : Nat) : Bytes :=
  [4] ++ be16 (if asn > 65535 then TRANS_ASN else asn) ++ be16 hold ++ be32 rid

def openBody (asn hold rid : Nat) (caps : List Cap) : Bytes :=
  if caps.isEmpty then openFixed asn hold rid ++ [0]
  else openFixed asn hold rid ++ [(caps.flatMap capBytes).length + 2, 2, (caps.flatMap capBytes).length] ++ caps.flatMap capBytes

theorem maxLen_ge (c : Codec) : 4096 ≤ c.maxLen := by
  unfold Codec.maxLen; split <;> omega

theorem openBody_length_le (asn hold rid : Nat) (caps : List Cap) :
    (openBody asn hold rid caps).length ≤ 13 + (caps.flatMap capBytes).length := by
  unfold openBody openFixed
  split <;> simp <;> omega

theorem doEncode_open (p : Profile) (c : Codec) (asn hold rid : Nat) (caps : List Cap) (es : List Entry)
    (h : ∀ x ∈ caps, capOk x = true) (hs : (caps.flatMap capBytes).length + 2 < 256) :
    doEncode p c (.open asn hold rid caps) es = .ok (frame 1 (openBody asn hold rid caps), 0) := by
  have hsz : (frame 1 (openBody asn hold rid caps)).length ≤ c.maxLen := by
    have := maxLen_ge c
    have := openBody_length_le asn hold rid caps
    rw [frame_length]; omega
  refine doEncode_of_body ?_ hsz
  unfold doEncodeBody openBody openFixed
  by_cases he : caps.isEmpty = true
  · simp [he]
  · have he' : caps.isEmpty = false := by simpa using he
    simp only [he', Bool.false_eq_true, if_false]
    rw [encodeCaps_eq caps 0 h]
    simp only [Out.bind_ok, Nat.zero_add]
    rw [if_neg (by omega)]
    simp only [Out.pure_eq]

theorem openBody_parts (t hold rid : Nat) (tail : Bytes) :
    let b := [4] ++ be16 t ++ be16 hold ++ be32 rid ++ tail
    b.take 1 = [4] ∧ (b.drop 1).take 2 = be16 t ∧ (b.drop 3).take 2 = be16 hold ∧
    (b.drop 5).take 4 = be32 rid ∧ b.drop 9 = tail ∧ b.length = 9 + tail.length := by
  intro b
  have e : b = 4 :: (be16 t ++ (be16 hold ++ (be32 rid ++ tail))) := by simp [b]
  refine ⟨by rw [e]; rfl, ?_, ?_, ?_, ?_, ?_⟩
  · rw [e]; simp only [List.drop_succ_cons, List.drop_zero]; exact List.take_left' (be16_length _)
  · rw [show b = ([4] ++ be16 t) ++ (be16 hold ++ (be32 rid ++ tail)) by simp [b], List.drop_left' (by simp)]
    exact List.take_left' (be16_length _)
  · rw [show b = ([4] ++ be16 t ++ be16 hold) ++ (be32 rid ++ tail) by simp [b], List.drop_left' (by simp)]
    exact List.take_left' (be32_length _)
  · rw [show b = ([4] ++ be16 t ++ be16 hold ++ be32 rid) ++ tail by simp [b]]
    exact List.drop_left' (by simp)
  · simp [b]; omega

theorem lastAs4_fold (caps : List Cap) (n0 : Nat) (o0 : Option Nat) (h0 : ∀ a, o0 = some a → n0 = a) :
    ∀ a, caps.foldl (fun n c => match c with | .as4 a => some a | _ => n) o0 = some a →
      caps.foldl (fun n c => match c with | .as4 a => a | _ => n) n0 = a := by
  induction caps generalizing n0 o0 with
  | nil => intro a h; exact h0 a h
  | cons c cs ih =>
      intro a h
      simp only [List.foldl_cons] at h ⊢
      cases c with
      | as4 x => exact ih x (some x) (by intro a' ha'; injection ha') a h
      | mp f => exact ih n0 o0 h0 a h
      | rr => exact ih n0 o0 h0 a h
      | enh l => exact ih n0 o0 h0 a h
      | em => exact ih n0 o0 h0 a h
      | gr f t l => exact ih n0 o0 h0 a h
      | ap l => exact ih n0 o0 h0 a h
      | err => exact ih n0 o0 h0 a h
      | llgr l => exact ih n0 o0 h0 a h
      | fqdn hh d => exact ih n0 o0 h0 a h
      | unk cd b => exact ih n0 o0 h0 a h

theorem lastAs4_of (caps : List Cap) (a : Nat) (h : lastAs4? caps = some a) : lastAs4 caps = a :=
  lastAs4_fold caps 0 none (by intro a' ha'; cases ha') a h

theorem lastAs4_canon (caps : List Cap) : lastAs4 (caps.map canonCap) = lastAs4 caps := by
  unfold lastAs4
  rw [List.foldl_map]
  congr 1
  funext n c
  cases c <;> rfl

theorem lastAs4?_nil : lastAs4? [] = none := rfl

theorem capTlvs_nil : capTlvs [] = some [] := by rw [capTlvs]

theorem capTlvs_one (code : Nat) (v : Bytes) : capTlvs ([code, v.length] ++ v) = some [(code, v)] := by
  have e : [code, v.length] ++ v = code :: v.length :: (v ++ []) := by simp
  rw [e, capTlvs]
  have hl : ¬ (v ++ []).length < v.length := by simp
  simp only [hl, dite_false]
  rw [List.drop_left' rfl, List.take_left' rfl, capTlvs_nil]

theorem parseOpen_enc (asn hold rid : Nat) (caps : List Cap)
    (hasn : asn < 4294967296) (hhold : hold < 65536) (hh12 : hold ≠ 1 ∧ hold ≠ 2)
    (hrid : rid < 4294967296) (hr0 : rid ≠ 0 ∧ rid ≠ 4294967295 ∧ rid / 268435456 ≠ 14)
    (hcaps : ∀ x ∈ caps, capOk x = true) (hs : (caps.flatMap capBytes).length + 2 < 256)
    (hrec : if asn > 65535 ∨ asn = TRANS_ASN then lastAs4? caps = some asn else True) :
    parseOpen (frame 1 (openBody asn hold rid caps)) = .msg (.open asn hold rid (caps.map canonCap)) := by
  have htr : (if asn > 65535 then TRANS_ASN else asn) < 65536 := by
    split
    · simp [TRANS_ASN]
    · omega
  -- uniform description of the body
  have hbody : ∃ tail, openBody asn hold rid caps =
        [4] ++ be16 (if asn > 65535 then TRANS_ASN else asn) ++ be16 hold ++ be32 rid ++ tail ∧
      tail = (if caps.isEmpty then [0]
              else [(caps.flatMap capBytes).length + 2, 2, (caps.flatMap capBytes).length] ++ caps.flatMap capBytes) := by
    refine ⟨_, ?_, rfl⟩
    unfold openBody openFixed
    split <;> simp [List.append_assoc]
  obtain ⟨tail, hb, htail⟩ := hbody
  obtain ⟨p1, p2, p3, p4, p5, plen⟩ := openBody_parts (if asn > 65535 then TRANS_ASN else asn) hold rid tail
  unfold parseOpen
  rw [frame_body, hb]
  have htl : 1 ≤ tail.length := by rw [htail]; split <;> simp
  have hl29 : ¬ (frame 1 ([4] ++ be16 (if asn > 65535 then TRANS_ASN else asn) ++ be16 hold ++ be32 rid ++ tail)).length < 29 := by
    rw [frame_length, plen]; omega
  simp only [hl29, if_false, p1, beNat_single, ne_eq, not_true_eq_false, p2, beNat_be16 htr, p3, beNat_be16 hhold,
    p4, beNat_be32 hrid]
  have hh : ¬ (hold = 1 ∨ hold = 2) := by omega
  have hr : ¬ (rid = 0 ∨ rid = 4294967295 ∨ rid / 268435456 = 14) := by omega
  simp only [hh, if_false, hr]
  have hd10 : ∀ n, List.drop (9 + n) ([4] ++ be16 (if asn > 65535 then TRANS_ASN else asn) ++ be16 hold ++ be32 rid ++ tail)
      = tail.drop n := by
    intro n; rw [← List.drop_drop, p5]
  by_cases he : caps.isEmpty = true
  · -- no capability: optional parameter length 0
    have hc0 : caps = [] := List.isEmpty_iff.mp he
    have ht : tail = [0] := by rw [htail, he]; rfl
    have hasn' : ¬ (asn > 65535 ∨ asn = TRANS_ASN) := by
      intro hc; rw [if_pos hc, hc0, lastAs4?_nil] at hrec; cases hrec
    have htr' : (if asn > 65535 then TRANS_ASN else asn) = asn := by
      rw [if_neg (by omega)]
    have e9 : (([4] ++ be16 (if asn > 65535 then TRANS_ASN else asn) ++ be16 hold ++ be32 rid ++ tail).drop 9).take 1 = [0] := by
      rw [p5, ht]; rfl
    rw [e9]
    simp only [beNat_single, frame_length, plen, ht, List.length_cons, List.length_nil]
    have e10 : List.take 0 (List.drop 10 ([4] ++ be16 (if asn > 65535 then TRANS_ASN else asn) ++ be16 hold ++ be32 rid ++ [0])) = [] := by simp
    simp only [show ¬ (19 + (9 + (0 + 1)) < 29 + 0) by omega, if_false, e10, optParams, capTlvs_nil, openParams, htr']
    have : ¬ asn = TRANS_ASN := by omega
    simp [this, hc0, capTlvs_nil, openParams]
  · -- one capability parameter
    have he' : caps.isEmpty = false := by simpa using he
    have ht : tail = [(caps.flatMap capBytes).length + 2, 2, (caps.flatMap capBytes).length] ++ caps.flatMap capBytes := by
      rw [htail, he']; rfl
    have e9 : (([4] ++ be16 (if asn > 65535 then TRANS_ASN else asn) ++ be16 hold ++ be32 rid ++ tail).drop 9).take 1
        = [(caps.flatMap capBytes).length + 2] := by
      rw [p5, ht]; rfl
    rw [e9]
    simp only [beNat_single, frame_length, plen]
    have hlt : tail.length = 3 + (caps.flatMap capBytes).length := by rw [ht]; simp; omega
    have hc1 : ¬ (19 + (9 + tail.length) < 29 + ((caps.flatMap capBytes).length + 2)) := by omega
    simp only [hc1, if_false]
    have e10 : List.take ((caps.flatMap capBytes).length + 2)
        (List.drop 10 ([4] ++ be16 (if asn > 65535 then TRANS_ASN else asn) ++ be16 hold ++ be32 rid ++ tail))
        = [2, (caps.flatMap capBytes).length] ++ caps.flatMap capBytes := by
      rw [show (10 : Nat) = 9 + 1 by rfl, hd10 1, ht]
      simp only [List.cons_append, List.nil_append, List.drop_succ_cons, List.drop_zero]
      apply List.take_of_length_le; simp
    rw [e10]
    have hop : optParams ([2, (caps.flatMap capBytes).length] ++ caps.flatMap capBytes)
        = some [(2, caps.flatMap capBytes)] := by
      exact capTlvs_one 2 _
    rw [hop]
    simp only [openParams, if_true, capTlvs_enc caps (capValue_lt caps (by omega)), decodeCaps_enc caps hcaps,
      List.nil_append]
    -- the AS number
    by_cases hw : asn > 65535 ∨ asn = TRANS_ASN
    · rw [if_pos hw] at hrec
      have hl4 := lastAs4_of caps asn hrec
      have htr' : (if asn > 65535 then TRANS_ASN else asn) = TRANS_ASN := by
        rcases hw with h | h
        · rw [if_pos h]
        · rw [h]; simp
      rw [htr']
      simp [lastAs4_canon, hl4]
    · have htr' : (if asn > 65535 then TRANS_ASN else asn) = asn := by rw [if_neg (by omega)]
      have : ¬ asn = TRANS_ASN := by omega
      rw [htr']
      simp [this]

/-! ### re-encoding the decoded OPEN -/

theorem capValue_canon (c : Cap) : capValue (canonCap c) = capValue c := by
  cases c with
  | fqdn h d =>
      simp only [canonCap, capValue, List.length_map, List.map_map]
      have : (lower ∘ lower) = lower := by funext b; exact lower_idem b
      rw [this]
  | _ => rfl

theorem capCode_canon (c : Cap) : capCode (canonCap c) = capCode c := by cases c <;> rfl

theorem capBytes_canon (c : Cap) : capBytes (canonCap c) = capBytes c := by
  simp only [capBytes, capValue_canon, capCode_canon]

theorem capOk_canon (c : Cap) (h : capOk c = true) : capOk (canonCap c) = true := by
  cases c with
  | fqdn hh d =>
      simp only [capOk, Bool.and_eq_true, decide_eq_true_eq, List.all_eq_true, canonCap, List.length_map] at h ⊢
      obtain ⟨⟨h1, h2⟩, h3⟩ := h
      exact ⟨⟨by rw [utf8Valid_lower]; exact h1, by rw [utf8Valid_lower]; exact h2⟩, h3⟩
  | _ => exact h

theorem capsBlock_canon (caps : List Cap) : (caps.map canonCap).flatMap capBytes = caps.flatMap capBytes := by
  rw [List.flatMap_map]
  congr 1
  funext c
  exact capBytes_canon c

theorem openBody_canon (asn hold rid : Nat) (caps : List Cap) :
    openBody asn hold rid (caps.map canonCap) = openBody asn hold rid caps := by
  unfold openBody
  rw [capsBlock_canon]
  cases caps <;> rfl

/-- Domain of the master theorem for OPEN. -/
def domOpen (i : Input) : Bool :=
  match i.msg with
  | .open .. => buildable i && encodable i
  | _ => false

theorem frameLengths_open (asn hold rid : Nat) (caps : List Cap)
    (hs : (caps.flatMap capBytes).length + 2 < 256) (hv : ∀ c ∈ caps, (capValue c).length < 256) :
    frameLengths (frame 1 (openBody asn hold rid caps)) = none := by
  have hbody : ∃ tail, openBody asn hold rid caps =
        [4] ++ be16 (if asn > 65535 then TRANS_ASN else asn) ++ be16 hold ++ be32 rid ++ tail ∧
      tail = (if caps.isEmpty then [0]
              else [(caps.flatMap capBytes).length + 2, 2, (caps.flatMap capBytes).length] ++ caps.flatMap capBytes) := by
    refine ⟨_, ?_, rfl⟩
    unfold openBody openFixed
    split <;> simp [List.append_assoc]
  obtain ⟨tail, hb, htail⟩ := hbody
  obtain ⟨_, _, _, _, p5, plen⟩ := openBody_parts (if asn > 65535 then TRANS_ASN else asn) hold rid tail
  unfold frameLengths
  simp only [frame_type, beNat_single, frame_body, show ¬ ((1 : Nat) = 2) by decide, if_false, if_true, hb, plen]
  have hd10 : List.drop 10 ([4] ++ be16 (if asn > 65535 then TRANS_ASN else asn) ++ be16 hold ++ be32 rid ++ tail)
      = tail.drop 1 := by
    rw [show (10 : Nat) = 9 + 1 by rfl, ← List.drop_drop, p5]
  rw [hd10, p5]
  by_cases he : caps.isEmpty = true
  · have ht : tail = [0] := by rw [htail, he]; rfl
    rw [ht]
    simp [optParams, capTlvs_nil]
  · have he' : caps.isEmpty = false := by simpa using he
    have ht : tail = [(caps.flatMap capBytes).length + 2, 2, (caps.flatMap capBytes).length] ++ caps.flatMap capBytes := by
      rw [htail, he']; rfl
    rw [ht]
    have hop : optParams ([2, (caps.flatMap capBytes).length] ++ caps.flatMap capBytes)
        = some [(2, caps.flatMap capBytes)] := capTlvs_one 2 _
    simp only [List.cons_append, List.nil_append, List.drop_succ_cons, List.drop_zero, List.take_succ_cons,
      List.take_zero, beNat_single, List.length_cons] at hop ⊢
    rw [hop]
    simp [capTlvs_enc caps hv]
    rw [if_neg (by omega), if_pos (by omega)]

theorem parseMessage_open (od : OpaqueDec) (c : Codec) (body : Bytes) :
    parseMessage od c (frame 1 body) = parseOpen (frame 1 body) := by
  unfold parseMessage
  have hl : ¬ (frame 1 body).length < 19 := by simp
  simp only [hl, if_false, frame_type, beNat_single, if_true]

theorem master_open (p : Profile) (i : Input) (h : domOpen i = true) :
    check i (run p i) = .ok ∧ ∃ n s dec, run p i = .obs n s dec .t := by
  unfold domOpen at h
  have hge := maxFrame_ge i
  have hmaxF := maxLen_peer i
  cases hm : i.msg with
  | unreach f es => simp [hm] at h
  | reach f nh attrs es => simp [hm] at h
  | keepalive => simp [hm] at h
  | rr f => simp [hm] at h
  | notif c s d => simp [hm] at h
  | eor f => simp [hm] at h
  | «open» asn hold rid caps =>
      simp only [hm, Bool.and_eq_true] at h
      obtain ⟨hb, henc⟩ := h
      have hb' := hb
      simp only [buildable, hm, Bool.and_eq_true, decide_eq_true_eq, ne_eq, decide_not, Bool.not_eq_true',
        decide_eq_false_iff_not] at hb'
      obtain ⟨_, ⟨⟨⟨⟨⟨⟨⟨⟨⟨hasn, hhold⟩, hh1⟩, hh2⟩, hrid⟩, hr0⟩, hr1⟩, hr2⟩, hcaps⟩, hrec⟩⟩ := hb'
      have hcaps' : ∀ x ∈ caps, capOk x = true := List.all_eq_true.mp hcaps
      have hs : (caps.flatMap capBytes).length + 2 < 256 := by
        have henc' := henc
        simp only [encodable, hm, Bool.or_eq_true, decide_eq_true_eq] at henc'
        rcases henc' with he | he
        · have : caps = [] := List.isEmpty_iff.mp he
          rw [this]; simp
        · rw [capsBlock_length]; omega
      have hrec' : if asn > 65535 ∨ asn = TRANS_ASN then lastAs4? caps = some asn else True := by
        by_cases hw : asn > 65535 ∨ asn = TRANS_ASN
        · rw [if_pos hw]
          rw [if_pos hw] at hrec
          simpa using hrec
        · rw [if_neg hw]; trivial
      have hblen : (openBody asn hold rid caps).length ≤ 12 + (caps.flatMap capBytes).length := by
        unfold openBody openFixed
        split <;> simp <;> omega
      have hparse := parseOpen_enc asn hold rid caps hasn hhold ⟨hh1, hh2⟩ hrid ⟨hr0, hr1, hr2⟩ hcaps' hs hrec'
      have hdoe := doEncode_open p (negotiate i.loc i.rem) asn hold rid caps [] hcaps' hs
      have hdoe' : doEncode p (negotiate i.loc i.rem) (.open asn hold rid (caps.map canonCap)) []
          = .ok (frame 1 (openBody asn hold rid caps), 0) := by
        have := doEncode_open p (negotiate i.loc i.rem) asn hold rid (caps.map canonCap) []
          (by intro x hx; obtain ⟨y, hy, rfl⟩ := List.mem_map.mp hx; exact capOk_canon y (hcaps' y hy))
          (by rw [capsBlock_canon]; exact hs)
        rw [openBody_canon] at this
        exact this
      have hrun := run_single p i 1 (openBody asn hold rid caps) (.open asn hold rid (caps.map canonCap))
        (.open asn hold rid (caps.map canonCap)) (by rw [hm]; rfl) (by rw [hm]; exact hdoe)
        (by rw [hmaxF]; omega) (by omega)
        (by intro od; rw [parseMessage_open]; exact hparse)
        rfl rfl rfl rfl hdoe'
      refine ⟨?_, _, _, _, hrun⟩
      rw [hrun]
      apply check_single i 1 _ _ hb henc (by rw [hm]; rfl) (by omega) (by omega)
      · exact frameLengths_open asn hold rid caps hs (capValue_lt caps (by omega))
      · intro frames; simp [opaqueClause, hm]
      · intro frames; simp [contentClause, hm]

end Rbgp.Enc
