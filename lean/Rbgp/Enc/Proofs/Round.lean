/-
  Rbgp.Enc.Proofs.Round — a whole `encode_to` / peer-decode round for UPDATE messages, generic in the
  frame family (legacy / MP, reach / unreach).
-/
import Rbgp.Enc.Proofs.Stream
namespace Rbgp.Enc
open Rbgp.Enc.Spec

theorem parseMessage_update (od : OpaqueDec) (c : Codec) (body : Bytes) :
    parseMessage od c (frame 2 body) = parseUpdate od c (frame 2 body) := by
  unfold parseMessage
  have hl : ¬ (frame 2 body).length < 19 := by simp
  simp only [hl, if_false, frame_type, beNat_single]
  simp

/-- A family of UPDATE frames: what `do_encode` writes for the remaining entries `r` and what the peer parses. -/
structure UpdFam (p : Profile) (enc peer : Codec) (m : Msg) where
  S : List Entry → Prop
  hdrop : ∀ r n, S r → S (r.drop n)
  body : List Entry → Bytes
  N : List Entry → Nat
  Q : List Entry → Parsed
  hmaxeq : peer.maxLen = enc.maxLen
  hdo0 : ∀ r, r ≠ [] → S r → doEncodeBody p enc m r = .ok (frame 2 (body r), N r)
  hpos : ∀ r, r ≠ [] → S r → N r ≠ 0
  hsize : ∀ r, r ≠ [] → S r → 19 + (body r).length ≤ peer.maxLen ∧ 19 + (body r).length < 65536
  hparse : ∀ od r, r ≠ [] → S r → parseUpdate od peer (frame 2 (body r)) = .msg (Q r)
  hstruct : ∀ r, r ≠ [] → S r → frameLengths (frame 2 (body r)) = none

/-- `do_encode` = its body when the frame passes the final size check -/
theorem doEncode_of_body {p : Profile} {c : Codec} {m : Msg} {es : List Entry} {fr : Bytes} {n : Nat}
    (h : doEncodeBody p c m es = .ok (fr, n)) (hsz : fr.length ≤ c.maxLen) : doEncode p c m es = .ok (fr, n) := by
  unfold doEncode
  rw [h]
  simp only
  rw [if_neg (by omega)]

theorem UpdFam.hdo {p : Profile} {enc peer : Codec} {m : Msg} (U : UpdFam p enc peer m) (r : List Entry)
    (hr : r ≠ []) (hS : U.S r) : doEncode p enc m r = .ok (frame 2 (U.body r), U.N r) := by
  refine doEncode_of_body (U.hdo0 r hr hS) ?_
  rw [frame_length, ← U.hmaxeq]
  exact (U.hsize r hr hS).1

theorem UpdFam.encodeTo_eq {p : Profile} {enc peer : Codec} {m : Msg} (U : UpdFam p enc peer m)
    (es : List Entry) (hes : m.entries = es) (hne : es ≠ []) (hS : U.S es) :
    encodeTo p enc m = .ok (chunksG (fun r => (frame 2 (U.body r), U.N r)) U.N es) := by
  unfold encodeTo
  rw [hes]
  cases es with
  | nil => exact absurd rfl hne
  | cons e rest =>
      simp only
      exact encodeLoop_eq p enc m (fun r => frame 2 (U.body r)) U.N U.S U.hdrop U.hdo (e :: rest) hS

theorem UpdFam.decode_eq {p : Profile} {enc peer : Codec} {m : Msg} (U : UpdFam p enc peer m)
    (od : OpaqueDec) (es : List Entry) (hS : U.S es) :
    decodeStream od peer ((chunksG (fun r => (frame 2 (U.body r), U.N r)) U.N es).flatMap (·.1)) =
      chunksG (fun r => DRes.msg (U.Q r)) U.N es := by
  induction es using chunksG_induction U.N with
  | hnil => rw [chunksG, chunksG]; simp [decodeStream_nil]
  | hstop e rest h0 => exact absurd h0 (U.hpos _ (by simp) hS)
  | hstep e rest h0 ih =>
      rw [chunksG, chunksG]
      simp only [h0, dite_false, List.flatMap_cons]
      obtain ⟨hm, hl⟩ := U.hsize (e :: rest) (by simp) hS
      rw [decodeStream_frame od peer 2 (U.body (e :: rest)) _ (U.Q (e :: rest)) hm hl
            (by rw [parseMessage_update]; exact U.hparse od _ (by simp) hS)]
      rw [ih (U.hdrop _ _ hS)]

theorem UpdFam.roundTrip_eq {p : Profile} {loc rem : List Cap} {m : Msg}
    (U : UpdFam p (negotiate loc rem) (negotiate rem loc) m)
    (es : List Entry) (hes : m.entries = es) (hne : es ≠ []) (hS : U.S es) :
    roundTrip p loc rem m =
      .ok (chunksG (fun r => (frame 2 (U.body r), U.N r)) U.N es, chunksG (fun r => DRes.msg (U.Q r)) U.N es) := by
  unfold roundTrip
  simp only [U.encodeTo_eq es hes hne hS]
  rw [U.decode_eq _ es hS]

end Rbgp.Enc
