/-
  Rbgp.Enc.Proofs.Negotiate — the two codecs `negotiate(local, remote)` / `negotiate(remote, local)` agree:
  same maximum message size, same AS width, and the sender's add-path-tx is the receiver's add-path-rx.
-/
import Rbgp.Enc.Proofs.RunUpd
namespace Rbgp.Enc
open Rbgp.Enc.Spec

theorem negotiate_maxLen (l r : List Cap) (m : Msg) : (negotiate l r).maxLen = maxFrame ⟨l, r, m⟩ := by
  simp [negotiate, Codec.maxLen, maxFrame, emBoth]

theorem negotiate_maxLen_comm (l r : List Cap) : (negotiate r l).maxLen = (negotiate l r).maxLen := by
  simp [negotiate, Codec.maxLen, Bool.and_comm]

theorem negotiate_maxLen_le (l r : List Cap) : (negotiate l r).maxLen ≤ 65535 := by
  simp only [Codec.maxLen]; split <;> omega

theorem negotiate_twoByte (l r : List Cap) : (negotiate l r).twoByte = !as4Both l r := by
  simp [negotiate, as4Both]

theorem negotiate_twoByte_comm (l r : List Cap) : (negotiate r l).twoByte = (negotiate l r).twoByte := by
  simp [negotiate, Bool.and_comm]

/-- both present -/
def both {α β δ : Type} (a : Option α) (b : Option β) (g : β → α → δ) : Option δ :=
  match a, b with
  | some v, some w => some (g w v)
  | _, _ => none

/-- `lookup` through the `filterMap` / `map` that builds the negotiated family table -/
theorem lookup_common {β γ δ : Type} (f : Fam) (m : List (Fam × β)) (m2 : List (Fam × γ)) (h : Fam → γ → β → δ) :
    lookup f ((m.filterMap (fun (kv : Fam × β) =>
        (lookup kv.1 m2).map (fun w => (kv.1, w, kv.2)))).map (fun x => (x.1, h x.1 x.2.1 x.2.2))) =
      both (lookup f m) (lookup f m2) (h f) := by
  induction m with
  | nil => simp [lookup, both]
  | cons kv rest ih =>
      obtain ⟨k, v⟩ := kv
      rw [List.filterMap_cons]
      by_cases hk : k = f
      · subst hk
        cases hw : lookup k m2 with
        | none =>
            simp only [Option.map_none, lookup, if_true]
            rw [ih, hw]
            cases lookup k rest <;> simp [both]
        | some w => simp [lookup, both]
      · cases hw : lookup k m2 with
        | none => simp only [Option.map_none, lookup, hk, if_false]; exact ih
        | some w => simp only [Option.map_some, List.map_cons, lookup, hk, if_false]; exact ih

theorem lookup_fams (l r : List Cap) (f : Fam) :
    lookup f (negotiate l r).fams =
      both (lookup f (parseCaps r)) (lookup f (parseCaps l))
        (fun (lc rc : Raw) => ({ rx := bit0 lc.addpath && bit1 rc.addpath, tx := bit1 lc.addpath && bit0 rc.addpath, enh := lc.extNh && rc.extNh } : FamState)) := by
  simp only [negotiate]
  exact lookup_common f (parseCaps r) (parseCaps l)
    (fun _ (lc rc : Raw) => ({ rx := bit0 lc.addpath && bit1 rc.addpath, tx := bit1 lc.addpath && bit0 rc.addpath, enh := lc.extNh && rc.extNh } : FamState))

/-- the receiver's add-path-rx for `f` is the sender's add-path-tx -/
theorem codecPair (l r : List Cap) (f : Fam) (h : (rxOf (negotiate r l) f).isSome = true) :
    CodecPair (negotiate l r) (negotiate r l) f := by
  refine ⟨negotiate_maxLen_comm l r, negotiate_maxLen_le l r, ?_⟩
  simp only [rxOf, Codec.addpathTx, lookup_fams] at h ⊢
  cases h1 : lookup f (parseCaps l) with
  | none => simp [h1, both] at h
  | some lc =>
      cases h2 : lookup f (parseCaps r) with
      | none => simp [h1, h2, both] at h
      | some rc => simp [both, Bool.and_comm]

end Rbgp.Enc
