/-
  Rbgp.Enc.Proofs.Fixed — decode(encode(x)) is a fixed point: re-encoding what the peer decoded from a frame
  reproduces the frame, hence the same decoded value.
-/
import Rbgp.Enc.Proofs.Content
namespace Rbgp.Enc
open Rbgp.Enc.Spec

theorem reTrip_single (p : Profile) (loc rem : List Cap) (m : Msg) (frs : List (Bytes × Nat))
    (henc : encodeTo p (negotiate loc rem) m = .ok frs) :
    ∃ od, reTrip p loc rem [m] = .ok (decodeStream od (negotiate rem loc) (frs.flatMap (·.1))) := by
  unfold reTrip
  simp only [reTrip.go, henc]
  have : (frs.map (fun (x : Bytes × Nat) => (x.1, x.2, m)) ++ []).flatMap (fun (x : Bytes × Nat × Msg) => x.1)
      = frs.flatMap (fun (x : Bytes × Nat) => x.1) := by
    simp [List.flatMap_map]
  rw [this]
  exact ⟨_, rfl⟩

/-- `chunksG` on a list that one iteration consumes entirely -/
theorem chunksG_single {α : Type} (G : List Entry → α) (N : List Entry → Nat) (es : List Entry)
    (hne : es ≠ []) (hN : N es = es.length) : chunksG G N es = [G es] := by
  cases es with
  | nil => exact absurd rfl hne
  | cons e rest =>
      rw [chunksG]
      have h0 : N (e :: rest) ≠ 0 := by rw [hN]; simp
      rw [dif_neg h0, hN, List.drop_length, chunksG]

/-- A frame family together with what is needed for the fixed-point probe. -/
structure UpdFamFp (p : Profile) (loc rem : List Cap) (m : Msg)
    extends UpdFam p (negotiate loc rem) (negotiate rem loc) m where
  g : Entry → Entry
  hle : ∀ r, N r ≤ r.length
  remsg : List Entry → Msg
  hremsg : ∀ es', (remsg es').entries = es'
  htoMsgs : ∀ r, r ≠ [] → S r → toMsgs (Q r) (r.take (N r)) = [remsg ((r.take (N r)).map g)]
  hclean : ∀ r, r ≠ [] → S r → (DRes.msg (Q r)).clean = true
  hnE : ∀ r, r ≠ [] → S r → (Q r).nEntries = N r
  refam : ∀ es', UpdFam p (negotiate loc rem) (negotiate rem loc) (remsg es')
  hsameB : ∀ es', (refam es').body = body
  hsameN : ∀ es', (refam es').N = N
  hsameQ : ∀ es', (refam es').Q = Q
  hsameS : ∀ es', (refam es').S = S
  hgS : ∀ r, S r → S (r.map g)
  hgN : ∀ r, r ≠ [] → S r → N ((r.take (N r)).map g) = N r
  hgB : ∀ r, r ≠ [] → S r → body ((r.take (N r)).map g) = body r
  hgQ : ∀ r, r ≠ [] → S r → Q ((r.take (N r)).map g) = Q r
  htakeS : ∀ r n, S r → S (r.take n)

theorem UpdFamFp.reTrip_eq {p : Profile} {loc rem : List Cap} {m : Msg} (U : UpdFamFp p loc rem m)
    (r : List Entry) (hr : r ≠ []) (hS : U.S r) :
    reTrip p loc rem (toMsgs (U.Q r) (r.take (U.N r))) = .ok [.msg (U.Q r)] := by
  rw [U.htoMsgs r hr hS]
  let es' := (r.take (U.N r)).map U.g
  have hpos := U.hpos r hr hS
  have hne' : es' ≠ [] := by
    have := take_ne_nil hr hpos
    intro h; apply this; exact List.map_eq_nil_iff.mp h
  have hlen : es'.length = U.N r := by
    simp only [es', List.length_map, List.length_take]
    have := U.hle r; omega
  have hS' : (U.refam es').S es' := by
    rw [U.hsameS]; exact U.hgS _ (U.htakeS r _ hS)
  have hN' : (U.refam es').N es' = es'.length := by
    rw [U.hsameN, U.hgN r hr hS, hlen]
  have henc := (U.refam es').encodeTo_eq es' (U.hremsg es') hne' hS'
  rw [chunksG_single _ _ es' hne' hN'] at henc
  obtain ⟨od, hre⟩ := reTrip_single p loc rem (U.remsg es') _ henc
  rw [hre]
  have hdec := (U.refam es').decode_eq od es' hS'
  rw [chunksG_single _ _ es' hne' hN', chunksG_single _ _ es' hne' hN'] at hdec
  rw [hdec, U.hsameQ, U.hgQ r hr hS]

theorem UpdFamFp.fixedPoint_ok {p : Profile} {loc rem : List Cap} {m : Msg} (U : UpdFamFp p loc rem m)
    (es : List Entry) (hS : U.S es) :
    fixedPoint p loc rem (chunksG (fun r => DRes.msg (U.Q r)) U.N es) es = .ok true := by
  induction es using chunksG_induction U.N with
  | hnil => rw [chunksG]; rfl
  | hstop e rest h0 => exact absurd h0 (U.hpos _ (by simp) hS)
  | hstep e rest h0 ih =>
      rw [chunksG]
      simp only [h0, dite_false, fixedPoint]
      have hn := U.hnE (e :: rest) (by simp) hS
      have hle := U.hle (e :: rest)
      simp only [hn, hle, if_true]
      rw [U.htoMsgs (e :: rest) (by simp) hS]
      simp only [List.isEmpty_cons, Bool.false_eq_true, if_false]
      rw [← U.htoMsgs (e :: rest) (by simp) hS, U.reTrip_eq (e :: rest) (by simp) hS]
      have hc := U.hclean (e :: rest) (by simp) hS
      simp only [List.all_cons, hc, List.all_nil, Bool.and_self, beq_self_eq_true, if_true]
      exact ih (U.hdrop _ _ hS)

end Rbgp.Enc
