/-
  Rbgp.Enc.Proofs.TwoByte — UPDATEs towards a peer WITHOUT 4-octet AS support (RFC 6793): the attribute block the
  encoder writes (AS_PATH / AGGREGATOR down-converted, AS4_PATH / AS4_AGGREGATOR added), what the peer's attribute
  loop and `reconcile_as4` make of it, and that this is the input again — under the two recorded protocol limits
  (a confederation segment that is not leading, a wide AS inside a confederation segment), which stay hypotheses.
-/
import Rbgp.Enc.Proofs.Update
import Rbgp.Enc.Proofs.AsPath
namespace Rbgp.Enc
open Rbgp.Enc.Spec

/-! ### `parseSegs` is inverted by `encSegs` -/

theorem be32_beNat4 (a b c d : Nat) (ha : a < 256) (hb : b < 256) (hc : c < 256) (hd : d < 256) :
    be32 (beNat [a, b, c, d]) = [a, b, c, d] := by
  have e : beNat [a, b, c, d] = a * 16777216 + b * 65536 + c * 256 + d := by
    simp only [beNat, List.foldl]; omega
  rw [e]
  simp only [be32, List.cons.injEq, and_true]
  refine ⟨?_, ?_, ?_, ?_⟩ <;> omega

theorem beNat4_lt (l : Bytes) (hl : l.length = 4) (hb : BytesOk l) : beNat l < 256 ^ 4 ∧ be32 (beNat l) = l := by
  match l, hl with
  | [a, b, c, d], _ =>
      have ha := hb a (by simp); have hb' := hb b (by simp); have hc := hb c (by simp); have hd := hb d (by simp)
      refine ⟨?_, be32_beNat4 a b c d ha hb' hc hd⟩
      have e : beNat [a, b, c, d] = a * 16777216 + b * 65536 + c * 256 + d := by
        simp only [beNat, List.foldl]; omega
      have : (256 : Nat) ^ 4 = 4294967296 := by decide
      omega

theorem BytesOk.take {b : Bytes} (n : Nat) (h : BytesOk b) : BytesOk (b.take n) :=
  fun x hx => h x (List.mem_of_mem_take hx)
theorem BytesOk.drop {b : Bytes} (n : Nat) (h : BytesOk b) : BytesOk (b.drop n) :=
  fun x hx => h x (List.mem_of_mem_drop hx)

theorem chunk4_inv (c : Nat) (rest : Bytes) (hb : BytesOk rest) (hl : 4 * c ≤ rest.length) :
    (chunk 4 c rest).flatMap (beW 4) = rest.take (4 * c) ∧ (chunk 4 c rest).length = c ∧
      ∀ a ∈ chunk 4 c rest, a < 256 ^ 4 := by
  induction c generalizing rest with
  | zero => simp [chunk]
  | succ n ih =>
      have h4 : (rest.take 4).length = 4 := by simp [List.length_take]; omega
      obtain ⟨hlt, hinv⟩ := beNat4_lt (rest.take 4) h4 (hb.take 4)
      obtain ⟨i1, i2, i3⟩ := ih (rest.drop 4) (hb.drop 4) (by simp [List.length_drop]; omega)
      refine ⟨?_, ?_, ?_⟩
      · simp only [chunk, List.flatMap_cons, i1]
        have : beW 4 (beNat (rest.take 4)) = rest.take 4 := by
          simp only [beW, show ¬ ((4 : Nat) = 2) by decide, if_false]; exact hinv
        rw [this, show 4 * (n + 1) = 4 + 4 * n by omega, List.take_add]
      · simp [chunk, i2]
      · intro a ha
        simp only [chunk, List.mem_cons] at ha
        rcases ha with rfl | ha
        · exact hlt
        · exact i3 a ha

/-- what `parseSegs 4` accepts is the encoding of what it returns -/
theorem parseSegs4_sound : ∀ (n : Nat) (b : Bytes) (segs : List Seg), b.length ≤ n → BytesOk b →
    parseSegs 4 b = some segs → encSegs 4 segs = b ∧ SegsOk 4 segs := by
  intro n
  induction n with
  | zero =>
      intro b segs hn _ h
      have : b = [] := List.length_eq_zero_iff.mp (by omega)
      subst this
      rw [parseSegs] at h
      injection h with h; subst h
      exact ⟨rfl, fun s hs => by cases hs⟩
  | succ n ih =>
      intro b segs hn hb h
      match b, h with
      | [], h =>
          rw [parseSegs] at h
          injection h with h; subst h
          exact ⟨rfl, fun s hs => by cases hs⟩
      | [_], h => rw [parseSegs] at h; cases h
      | t :: c :: rest, h =>
          rw [parseSegs] at h
          by_cases hlen : rest.length < 4 * c
          · simp [hlen] at h
          · simp only [hlen, if_false] at h
            cases hp : parseSegs 4 (rest.drop (4 * c)) with
            | none => rw [hp] at h; cases h
            | some tl =>
                rw [hp] at h
                injection h with h; subst h
                have hbr : BytesOk rest := fun x hx => hb x (by simp [hx])
                have hc : c < 256 := hb c (by simp)
                obtain ⟨e1, e2⟩ := ih (rest.drop (4 * c)) tl (by simp [List.length_drop] at hn ⊢; omega) (hbr.drop _) hp
                obtain ⟨i1, i2, i3⟩ := chunk4_inv c rest hbr (by omega)
                refine ⟨?_, ?_⟩
                · simp only [encSegs, List.flatMap_cons] at e1 ⊢
                  rw [e1, i1, i2, Nat.mod_eq_of_lt hc]
                  simp
                · intro s hs
                  rcases List.mem_cons.mp hs with rfl | hs
                  · exact ⟨by simpa [i2] using hc, i3⟩
                  · exact e2 s hs

/-! ### what `attrOk` says about AS_PATH and AGGREGATOR -/

theorem bytesOk_iff (b : Bytes) : bytesOk b = true ↔ BytesOk b := by
  simp [bytesOk, BytesOk, List.all_eq_true]

theorem aspath_of_attrOk (a : Attr) (h : attrOk a = true) (hc : a.code = 2) :
    ∃ b segs, a.data = .bin b ∧ wireValue a = b ∧ parseSegs 4 b = some segs ∧ segTypesOk segs = true ∧
      encSegs 4 segs = b ∧ SegsOk 4 segs ∧ b.length < 65536 := by
  simp only [attrOk, Bool.and_eq_true, decide_eq_true_eq] at h
  obtain ⟨⟨⟨⟨_, _⟩, hb⟩, hl⟩, hm⟩ := h
  have hcf : canonicalFlags a.code = some 64 := by rw [hc]; decide
  simp only [hcf, Bool.and_eq_true, beq_iff_eq] at hm
  obtain ⟨_, hdec⟩ := hm
  simp only [hc, decodeAttrData, show ¬ ((2 : Nat) = 1) by decide, if_false,
    show ¬ ((2 : Nat) = 4 ∨ (2 : Nat) = 5 ∨ (2 : Nat) = 9) by decide, if_true, Bool.false_eq_true] at hdec
  cases hp : parseSegs 4 (wireValue a) with
  | none => rw [hp] at hdec; cases hdec
  | some segs =>
      rw [hp] at hdec
      by_cases hst : segTypesOk segs = true
      · simp only [hst, if_true, Option.some.injEq] at hdec
        obtain ⟨e1, e2⟩ := parseSegs4_sound _ _ segs (Nat.le_refl _) ((bytesOk_iff _).mp hb) hp
        exact ⟨wireValue a, segs, hdec.symm, rfl, hp, hst, e1, e2, by omega⟩
      · simp [hst] at hdec

theorem aggr_of_attrOk (a : Attr) (h : attrOk a = true) (hc : a.code = 7) :
    ∃ b, a.data = .bin b ∧ wireValue a = b ∧ b.length = 8 ∧ BytesOk b := by
  simp only [attrOk, Bool.and_eq_true, decide_eq_true_eq] at h
  obtain ⟨⟨⟨⟨_, _⟩, hb⟩, _⟩, hm⟩ := h
  have hcf : canonicalFlags a.code = some 192 := by rw [hc]; decide
  simp only [hcf, Bool.and_eq_true, beq_iff_eq] at hm
  obtain ⟨_, hdec⟩ := hm
  have hbk := (bytesOk_iff _).mp hb
  simp only [hc, decodeAttrData, show ¬ ((7 : Nat) = 1) by decide, if_false,
    show ¬ ((7 : Nat) = 4 ∨ (7 : Nat) = 5 ∨ (7 : Nat) = 9) by decide, show ¬ ((7 : Nat) = 2) by decide,
    show ¬ ((7 : Nat) = 6) by decide, if_true] at hdec
  by_cases h6 : (wireValue a).length = 6
  · -- a 6-byte value decodes to 8 bytes, which is not the stored 6-byte value
    simp only [h6, if_true, Option.some.injEq] at hdec
    exfalso
    generalize hv : wireValue a = v at hdec h6
    have hw : wireValue a = be32 (beNat (v.take 2)) ++ v.drop 2 := by
      simp only [wireValue, ← hdec, hc, show ¬ ((7 : Nat) = 1) by decide, if_false]
    rw [hv] at hw
    have := congrArg List.length hw
    simp [List.length_drop, h6] at this
  · simp only [h6, if_false] at hdec
    by_cases h8 : (wireValue a).length = 8
    · simp only [h8, if_true, Option.some.injEq] at hdec
      exact ⟨wireValue a, hdec.symm, rfl, h8, hbk⟩
    · simp [h8] at hdec

/-! ### the attributes written towards a 2-octet-AS peer -/

def nonConfedSeg (s : Seg) : Bool := decide (s.1 ≠ 3 ∧ s.1 ≠ 4)

/-- segments of a stored AS_PATH -/
def asSegs (a : Attr) : List Seg := (parseSegs 4 (wireValue a)).getD []
def aggAsn (a : Attr) : Nat := beNat ((wireValue a).take 4)

def downAttr (a : Attr) : Attr := ⟨2, a.flags, .bin (encSegs 2 (downSegs (asSegs a)))⟩
def as4PathAttr (a : Attr) : Attr := ⟨17, 192, .bin (encSegs 4 ((asSegs a).filter nonConfedSeg))⟩
def aggDownAttr (a : Attr) : Attr :=
  ⟨7, a.flags, .bin (be16 (if aggAsn a > 65535 then TRANS_ASN else aggAsn a) ++ ((wireValue a).drop 4).take 4)⟩
def as4AggAttr (a : Attr) : Attr := ⟨18, 192, .bin (wireValue a)⟩

/-- the attributes `do_encode` writes for the input attribute `a` when `two_byte_as` -/
def wire2 (a : Attr) : List Attr :=
  if a.code = 2 then downAttr a :: (if hasWideSegs (asSegs a) then [as4PathAttr a] else [])
  else if a.code = 7 then aggDownAttr a :: (if aggAsn a > 65535 then [as4AggAttr a] else [])
  else [a]

theorem encSegs_cons (w : Nat) (s : Seg) (rest : List Seg) :
    encSegs w (s :: rest) = [s.1, s.2.length % 256] ++ s.2.flatMap (beW w) ++ encSegs w rest := by
  simp [encSegs]

theorem encSegs_length (w : Nat) (hw : w = 2 ∨ w = 4) (segs : List Seg) :
    (encSegs w segs).length = (segs.map (fun s => 2 + w * s.2.length)).sum := by
  induction segs with
  | nil => rfl
  | cons s rest ih =>
      rw [encSegs_cons, List.length_append, List.length_append, ih, flatMap_beW_length w hw]
      simp

theorem downSegs_length_le (segs : List Seg) : (encSegs 2 (downSegs segs)).length ≤ (encSegs 4 segs).length := by
  rw [encSegs_length 2 (Or.inl rfl), encSegs_length 4 (Or.inr rfl)]
  induction segs with
  | nil => simp [downSegs]
  | cons s rest ih =>
      simp only [downSegs, List.map_cons, List.sum_cons, List.length_map] at ih ⊢
      omega

theorem filterSegs_length_le (segs : List Seg) (q : Seg → Bool) :
    (encSegs 4 (segs.filter q)).length ≤ (encSegs 4 segs).length := by
  rw [encSegs_length 4 (Or.inr rfl), encSegs_length 4 (Or.inr rfl)]
  induction segs with
  | nil => simp
  | cons s rest ih =>
      rw [List.filter_cons]
      split
      · simp only [List.map_cons, List.sum_cons]; omega
      · simp only [List.map_cons, List.sum_cons]; omega

/-- `(bytes, returned length)` of one written attribute -/
def encPair (x : Attr) : Bytes × Nat := (encRaw (rawOf x), (encRaw (rawOf x)).length % 65536)

theorem attr_encode_bin (code flags : Nat) (b : Bytes) (hc : ¬ (code = 1 ∨ code = 4 ∨ code = 5 ∨ code = 9))
    (hl : b.length < 65536) : (Attr.mk code flags (.bin b)).encode = .ok (encPair ⟨code, flags, .bin b⟩) := by
  have hw : wireValue (Attr.mk code flags (.bin b)) = b := by
    have h1 : ¬ code = 1 := fun h => hc (Or.inl h)
    simp [wireValue]
  exact attr_encode _ (by simp [kindOk, hc, AData.binary?]) (by rw [hw]; exact hl)

theorem encodeOneAttr_two (a : Attr) (h : attrOk a = true) :
    encodeOneAttr true a = .ok ((wire2 a).map encPair) := by
  unfold encodeOneAttr wire2
  simp only [Bool.not_true, Bool.false_eq_true, if_false]
  by_cases h2 : a.code = 2
  · obtain ⟨b, segs, hd, hw, hp, _, henc, hok, hl⟩ := aspath_of_attrOk a h h2
    have hsegs : asSegs a = segs := by simp [asSegs, hw, hp]
    have hdown : asPathDowngrade b = .ok (encSegs 2 (downSegs segs)) := by
      simp only [asPathDowngrade, hp, downSegs]; rfl
    have hwide : asPathHasWide b = hasWideSegs segs := by simp only [asPathHasWide, hp, hasWideSegs]
    have hstrip : asPathStripConfed b = encSegs 4 (segs.filter nonConfedSeg) := by
      simp only [asPathStripConfed, hp]; rfl
    have hl1 : (encSegs 2 (downSegs segs)).length < 65536 := by
      have := downSegs_length_le segs; rw [henc] at this; omega
    have hl2 : (encSegs 4 (segs.filter nonConfedSeg)).length < 65536 := by
      have := filterSegs_length_le segs nonConfedSeg; rw [henc] at this; omega
    simp only [h2, if_true, hd, AData.binary?, hdown, Out.bind_ok, hwide, hstrip, hsegs]
    rw [attr_encode_bin 2 a.flags _ (by decide) hl1]
    simp only [Out.bind_ok]
    by_cases hw' : hasWideSegs segs = true
    · simp only [hw', if_true]
      rw [attr_encode_bin 17 192 _ (by decide) hl2]
      simp [downAttr, as4PathAttr, hsegs]
    · simp [hw', downAttr, hsegs]
  · by_cases h7 : a.code = 7
    · obtain ⟨b, hd, hw, hl8, _⟩ := aggr_of_attrOk a h h7
      have hlt : ¬ b.length < 8 := by omega
      simp only [h2, if_false, h7, if_true, hd, AData.binary?, hlt]
      have e6 : (be16 (if beNat (b.take 4) > 65535 then TRANS_ASN else beNat (b.take 4)) ++ (b.drop 4).take 4).length < 65536 := by
        simp [List.length_take]; omega
      rw [attr_encode_bin 7 a.flags _ (by decide) e6]
      simp only [Out.bind_ok]
      by_cases hwd : beNat (b.take 4) > 65535
      · simp only [hwd, if_true]
        rw [attr_encode_bin 18 192 b (by decide) (by omega)]
        simp [aggDownAttr, as4AggAttr, aggAsn, hw, hwd]
      · simp [hwd, aggDownAttr, aggAsn, hw]
    · simp only [h2, if_false, h7]
      rw [attr_encode a (attrOk_kind a h) (attrOk_len a h)]
      simp [encPair]

/-! ### the peer's attribute loop (2-octet-AS codec) on the written attributes -/

/-- `attrStep` appends `y` for the TLV of `x` -/
def Steps (x y : Attr) : Prop :=
  ∀ st : ASt, st.seen.contains x.code = false →
    attrStep true st (rawOf x) = some { st with seen := x.code :: st.seen, attrs := st.attrs ++ [y] }

theorem decodeAttrData_tb (code : Nat) (v : Bytes) (hc : code ≠ 2) :
    decodeAttrData code v true = decodeAttrData code v false := by
  unfold decodeAttrData
  simp only [hc, if_false]

theorem attrStep_tb (st : ASt) (r : RawAttr) (h2 : r.code ≠ 2) (h17 : r.code ≠ 17) (h18 : r.code ≠ 18) :
    attrStep true st r = attrStep false st r := by
  unfold attrStep
  simp only [decodeAttrData_tb r.code r.val h2, h17, h18, false_or, false_and, Bool.not_true, Bool.not_false,
    and_true, if_false]

/-- a known attribute whose value the 2-octet decoder accepts as `d` -/
theorem steps_known (x : Attr) (d : AData) (exp : Nat)
    (hcf : canonicalFlags x.code = some exp) (hhi : x.flags / 64 % 4 = exp / 64 % 4)
    (hdec : decodeAttrData x.code (wireValue x) true = some d)
    (h14 : x.code ≠ 14) (h15 : x.code ≠ 15) (h3 : x.code ≠ 3) :
    Steps x ⟨x.code, (rawOf x).flags, d⟩ := by
  intro st hseen
  have hcode : (rawOf x).code = x.code := rfl
  have hval : (rawOf x).val = wireValue x := rfl
  have hf' : ¬ (rawOf x).flags / 64 % 4 ≠ exp / 64 % 4 := by
    rw [rawOf_flags_hi]; simp [hhi]
  unfold attrStep
  simp only [hcode, hseen, Bool.false_eq_true, if_false, hval, hcf, hf', hdec, h14, h15, h3, Bool.not_true,
    and_false]

theorem steps_plain (a : Attr) (h : attrOk a = true) (hp : plainCode a.code) (h2 : a.code ≠ 2) :
    Steps a (wireAttr a) := by
  intro st hseen
  rw [attrStep_tb st (rawOf a) h2 hp.2.2.2.1 hp.2.2.2.2]
  exact attrStep_rawOf a h hp st hseen

/-- element-wise relation of two lists -/
inductive Rel2 {α β : Type} (R : α → β → Prop) : List α → List β → Prop
  | nil : Rel2 R [] []
  | cons {a b l1 l2} : R a b → Rel2 R l1 l2 → Rel2 R (a :: l1) (b :: l2)

theorem loop_steps (xs ys : List Attr) (h : Rel2 Steps xs ys) (hnd : (xs.map (·.code)).Nodup) (st : ASt)
    (hfresh : ∀ x ∈ xs, st.seen.contains x.code = false) (rest : List RawAttr) :
    attrLoop true st (xs.map rawOf ++ rest) =
      attrLoop true { st with seen := (xs.map (·.code)).reverse ++ st.seen, attrs := st.attrs ++ ys } rest := by
  induction h generalizing st with
  | nil => simp
  | @cons x y xs ys hxy _ ih =>
      simp only [List.map_cons, List.cons_append, attrLoop]
      rw [hxy st (hfresh x (by simp))]
      simp only
      have hnd' : (xs.map (·.code)).Nodup := (List.nodup_cons.mp hnd).2
      have hnotin : x.code ∉ xs.map (·.code) := (List.nodup_cons.mp hnd).1
      rw [ih hnd']
      · simp [List.append_assoc]
      · intro z hz
        have hzs := hfresh z (by simp [hz])
        have hne : z.code ≠ x.code := by
          intro hc; apply hnotin; rw [← hc]; exact List.mem_map_of_mem hz
        simp only [List.contains_cons, Bool.or_eq_false_iff]
        exact ⟨by simpa using hne, hzs⟩

theorem forall₂_append {α β : Type} {R : α → β → Prop} {a1 a2 : List α} {b1 b2 : List β}
    (h1 : Rel2 R a1 b1) (h2 : Rel2 R a2 b2) : Rel2 R (a1 ++ a2) (b1 ++ b2) := by
  induction h1 with
  | nil => exact h2
  | cons hxy _ ih => exact Rel2.cons hxy ih

theorem forall₂_flatMap {α β γ : Type} {R : β → γ → Prop} (l : List α) (f : α → List β) (g : α → List γ)
    (h : ∀ a ∈ l, Rel2 R (f a) (g a)) : Rel2 R (l.flatMap f) (l.flatMap g) := by
  induction l with
  | nil => exact Rel2.nil
  | cons a as ih =>
      simp only [List.flatMap_cons]
      exact forall₂_append (h a (by simp)) (ih (fun x hx => h x (by simp [hx])))

/-! ### each written attribute, decoded -/

/-- the recorded RFC 6793 limits do not apply to this attribute: a wide AS only with leading, narrow confederation
    segments (hypothesis of the 2-octet-AS theorems; witnesses for its necessity: `witness_confed_tail`, F4e3/F4e4) -/
def Carriable (a : Attr) : Prop :=
  a.code = 2 → hasWideSegs (asSegs a) = true → confedLeading (asSegs a) = true

def upAttr (a : Attr) : Attr := ⟨2, (rawOf (downAttr a)).flags, .bin (encSegs 4 (downSegs (asSegs a)))⟩
def aggUpAttr (a : Attr) : Attr :=
  ⟨7, (rawOf (aggDownAttr a)).flags,
    .bin (be32 (if aggAsn a > 65535 then TRANS_ASN else aggAsn a) ++ ((wireValue a).drop 4).take 4)⟩

/-- what the peer's attribute loop appends for the attributes written for `a` (before `reconcile_as4`) -/
def pre2 (a : Attr) : List Attr :=
  if a.code = 2 then upAttr a :: (if hasWideSegs (asSegs a) then [wireAttr (as4PathAttr a)] else [])
  else if a.code = 7 then aggUpAttr a :: (if aggAsn a > 65535 then [wireAttr (as4AggAttr a)] else [])
  else [wireAttr a]

theorem segTypesOk_down (segs : List Seg) : segTypesOk (downSegs segs) = segTypesOk segs := by
  simp [segTypesOk, downSegs, List.all_map, Function.comp_def]

theorem flags_hi_of_attrOk (a : Attr) (h : attrOk a = true) (exp : Nat) (hcf : canonicalFlags a.code = some exp) :
    a.flags / 64 % 4 = exp / 64 % 4 := by
  simp only [attrOk, Bool.and_eq_true, decide_eq_true_eq] at h
  obtain ⟨_, hm⟩ := h
  simp only [hcf, Bool.and_eq_true, beq_iff_eq] at hm
  exact hm.1

theorem hasWideSegs_append (l1 l2 : List Seg) : hasWideSegs (l1 ++ l2) = (hasWideSegs l1 || hasWideSegs l2) := by
  simp [hasWideSegs]

/-- with a wide AS and only leading, narrow confederation segments, a non-confederation segment exists -/
theorem filter_ne_nil (segs : List Seg) (hw : hasWideSegs segs = true) (hcl : confedLeading segs = true) :
    segs.filter nonConfedSeg ≠ [] := by
  simp only [confedLeading, Bool.and_eq_true, Bool.not_eq_true'] at hcl
  obtain ⟨hlead, hnarrow⟩ := hcl
  have hsplit : segs = segs.takeWhile isConfedSeg ++ segs.dropWhile isConfedSeg := (List.takeWhile_append_dropWhile).symm
  rw [hsplit, hasWideSegs_append, hnarrow, Bool.false_or] at hw
  cases hd : segs.dropWhile isConfedSeg with
  | nil => rw [hd] at hw; simp [hasWideSegs] at hw
  | cons s rest =>
      have hs : isConfedSeg s = false := by
        have := List.all_eq_true.mp hlead s (by rw [hd]; simp)
        simpa using this
      have hmem : s ∈ segs := by rw [hsplit, hd]; simp
      intro hnil
      have : s ∈ segs.filter nonConfedSeg := by
        rw [List.mem_filter]
        refine ⟨hmem, ?_⟩
        simp only [isConfedSeg, Bool.or_eq_false_iff, beq_eq_false_iff_ne, ne_eq] at hs
        simp [nonConfedSeg, hs.1, hs.2]
      rw [hnil] at this
      cases this

theorem steps_down (a : Attr) (h : attrOk a = true) (h2 : a.code = 2) : Steps (downAttr a) (upAttr a) := by
  obtain ⟨b, segs, _, hw, hp, hst, _, hok, _⟩ := aspath_of_attrOk a h h2
  have hsegs : asSegs a = segs := by simp [asSegs, hw, hp]
  have hwv : wireValue (downAttr a) = encSegs 2 (downSegs segs) := by simp [downAttr, wireValue, hsegs]
  have hdec : decodeAttrData (downAttr a).code (wireValue (downAttr a)) true
      = some (.bin (encSegs 4 (downSegs segs))) := by
    rw [hwv]
    simp only [downAttr, decodeAttrData, show ¬ ((2 : Nat) = 1) by decide, if_false,
      show ¬ ((2 : Nat) = 4 ∨ (2 : Nat) = 5 ∨ (2 : Nat) = 9) by decide, if_true,
      parseSegs_enc 2 (Or.inl rfl) _ (downSegs_ok segs hok), segTypesOk_down, hst]
  have hhi : (downAttr a).flags / 64 % 4 = 64 / 64 % 4 :=
    flags_hi_of_attrOk a h 64 (by rw [h2]; decide)
  have := steps_known (downAttr a) _ 64 (by simp [downAttr]; decide) hhi hdec (by simp [downAttr]) (by simp [downAttr])
    (by simp [downAttr])
  simpa [upAttr, downAttr, hsegs] using this

theorem steps_as4path (a : Attr) (h : attrOk a = true) (h2 : a.code = 2) (hwide : hasWideSegs (asSegs a) = true)
    (hcar : Carriable a) : Steps (as4PathAttr a) (wireAttr (as4PathAttr a)) := by
  obtain ⟨b, segs, _, hw, hp, hst, _, hok, _⟩ := aspath_of_attrOk a h h2
  have hsegs : asSegs a = segs := by simp [asSegs, hw, hp]
  rw [hsegs] at hwide
  have hcl : confedLeading segs = true := by have := hcar h2; rw [hsegs] at this; exact this hwide
  have hokf : SegsOk 4 (segs.filter nonConfedSeg) := fun s hs => hok s (List.mem_filter.mp hs).1
  have hstf : ∀ s ∈ segs.filter nonConfedSeg, (1 ≤ s.1 ∧ s.1 ≤ 4 ∧ s.2.length ≠ 0) := by
    intro s hs
    have := List.all_eq_true.mp hst s (List.mem_filter.mp hs).1
    simpa using this
  have hwv : wireValue (as4PathAttr a) = encSegs 4 (segs.filter nonConfedSeg) := by
    simp [as4PathAttr, wireValue, hsegs]
  have hlen := encSegs_length 4 (Or.inr rfl) (segs.filter nonConfedSeg)
  have heven : (encSegs 4 (segs.filter nonConfedSeg)).length % 2 = 0 := by
    rw [hlen]
    generalize segs.filter nonConfedSeg = l
    induction l with
    | nil => rfl
    | cons s rest ih => simp only [List.map_cons, List.sum_cons]; omega
  have hge : ¬ (encSegs 4 (segs.filter nonConfedSeg)).length < 6 := by
    rw [hlen]
    cases hf : segs.filter nonConfedSeg with
    | nil => exact absurd hf (filter_ne_nil segs hwide hcl)
    | cons s rest =>
        have := (hstf s (by rw [hf]; simp)).2.2
        simp only [List.map_cons, List.sum_cons]
        omega
  have hdec : decodeAttrData (as4PathAttr a).code (wireValue (as4PathAttr a)) true
      = some (.bin (encSegs 4 (segs.filter nonConfedSeg))) := by
    rw [hwv]
    have hall1 : segTypesOk (segs.filter nonConfedSeg) = true := by
      simp only [segTypesOk, List.all_eq_true]
      intro s hs; simpa using hstf s hs
    have hall2 : (segs.filter nonConfedSeg).all (fun s => decide (s.2.length ≠ 0)) = true := by
      simp only [List.all_eq_true]
      intro s hs; simpa using (hstf s hs).2.2
    have hcond : ¬ ((encSegs 4 (segs.filter nonConfedSeg)).length % 2 ≠ 0 ∨ (encSegs 4 (segs.filter nonConfedSeg)).length < 6) := by
      intro hc; rcases hc with hc | hc
      · exact hc heven
      · exact hge hc
    simp only [as4PathAttr, decodeAttrData, show ¬ ((17 : Nat) = 1) by decide, if_false,
      show ¬ ((17 : Nat) = 4 ∨ (17 : Nat) = 5 ∨ (17 : Nat) = 9) by decide, show ¬ ((17 : Nat) = 2) by decide,
      show ¬ ((17 : Nat) = 6) by decide, show ¬ ((17 : Nat) = 7) by decide,
      show ¬ ((17 : Nat) = 8 ∨ (17 : Nat) = 10) by decide, show ¬ ((17 : Nat) = 16) by decide,
      show ¬ ((17 : Nat) = 32) by decide, if_true, hcond, parseSegs_enc 4 (Or.inr rfl) _ hokf, hall1, hall2,
      and_self]
  have := steps_known (as4PathAttr a) _ 192 (by simp [as4PathAttr]; decide) (by simp [as4PathAttr]) hdec
    (by simp [as4PathAttr]) (by simp [as4PathAttr]) (by simp [as4PathAttr])
  simpa [wireAttr, as4PathAttr, hsegs] using this

theorem steps_aggdown (a : Attr) (h : attrOk a = true) (h7 : a.code = 7) : Steps (aggDownAttr a) (aggUpAttr a) := by
  obtain ⟨b, _, hw, hl8, _⟩ := aggr_of_attrOk a h h7
  have has2 : (if aggAsn a > 65535 then TRANS_ASN else aggAsn a) < 65536 := by
    split
    · simp [TRANS_ASN]
    · omega
  have hwv : wireValue (aggDownAttr a)
      = be16 (if aggAsn a > 65535 then TRANS_ASN else aggAsn a) ++ ((wireValue a).drop 4).take 4 := by
    simp [aggDownAttr, wireValue]
  have hl6 : (be16 (if aggAsn a > 65535 then TRANS_ASN else aggAsn a) ++ ((wireValue a).drop 4).take 4).length = 6 := by
    simp [List.length_take, List.length_drop, hw, hl8]
  have hdec : decodeAttrData (aggDownAttr a).code (wireValue (aggDownAttr a)) true
      = some (.bin (be32 (if aggAsn a > 65535 then TRANS_ASN else aggAsn a) ++ ((wireValue a).drop 4).take 4)) := by
    rw [hwv]
    simp only [aggDownAttr, decodeAttrData, show ¬ ((7 : Nat) = 1) by decide, if_false,
      show ¬ ((7 : Nat) = 4 ∨ (7 : Nat) = 5 ∨ (7 : Nat) = 9) by decide, show ¬ ((7 : Nat) = 2) by decide,
      show ¬ ((7 : Nat) = 6) by decide, if_true, hl6]
    rw [List.take_left' (be16_length _), List.drop_left' (be16_length _), beNat_be16 has2]
  have hhi : (aggDownAttr a).flags / 64 % 4 = 192 / 64 % 4 :=
    flags_hi_of_attrOk a h 192 (by rw [h7]; decide)
  have := steps_known (aggDownAttr a) _ 192 (by simp [aggDownAttr]; decide) hhi hdec (by simp [aggDownAttr])
    (by simp [aggDownAttr]) (by simp [aggDownAttr])
  simpa [aggUpAttr, aggDownAttr] using this

theorem steps_as4agg (a : Attr) (h : attrOk a = true) (h7 : a.code = 7) :
    Steps (as4AggAttr a) (wireAttr (as4AggAttr a)) := by
  obtain ⟨b, _, hw, hl8, _⟩ := aggr_of_attrOk a h h7
  have hdec : decodeAttrData (as4AggAttr a).code (wireValue (as4AggAttr a)) true = some (.bin (wireValue a)) := by
    have hwv : wireValue (as4AggAttr a) = wireValue a := by simp [as4AggAttr, wireValue]
    rw [hwv]
    simp only [as4AggAttr, decodeAttrData, show ¬ ((18 : Nat) = 1) by decide, if_false,
      show ¬ ((18 : Nat) = 4 ∨ (18 : Nat) = 5 ∨ (18 : Nat) = 9) by decide, show ¬ ((18 : Nat) = 2) by decide,
      show ¬ ((18 : Nat) = 6) by decide, show ¬ ((18 : Nat) = 7) by decide,
      show ¬ ((18 : Nat) = 8 ∨ (18 : Nat) = 10) by decide, show ¬ ((18 : Nat) = 16) by decide,
      show ¬ ((18 : Nat) = 32) by decide, show ¬ ((18 : Nat) = 17) by decide, if_true, hw, hl8]
  have := steps_known (as4AggAttr a) _ 192 (by simp [as4AggAttr]; decide) (by simp [as4AggAttr]) hdec
    (by simp [as4AggAttr]) (by simp [as4AggAttr]) (by simp [as4AggAttr])
  simpa [wireAttr, as4AggAttr] using this

/-- the attribute loop turns what was written for `a` into `pre2 a` -/
theorem steps_wire2 (a : Attr) (h : attrOk a = true) (hp : plainCode a.code) (hcar : Carriable a) :
    Rel2 Steps (wire2 a) (pre2 a) := by
  unfold wire2 pre2
  by_cases h2 : a.code = 2
  · simp only [h2, if_true]
    refine Rel2.cons (steps_down a h h2) ?_
    by_cases hw : hasWideSegs (asSegs a) = true
    · simp only [hw, if_true]
      exact Rel2.cons (steps_as4path a h h2 hw hcar) Rel2.nil
    · simp only [hw, if_false]; exact Rel2.nil
  · by_cases h7 : a.code = 7
    · simp only [h2, if_false, h7, if_true]
      refine Rel2.cons (steps_aggdown a h h7) ?_
      by_cases hw : aggAsn a > 65535
      · simp only [hw, if_true]
        exact Rel2.cons (steps_as4agg a h h7) Rel2.nil
      · simp only [hw, if_false]; exact Rel2.nil
    · simp only [h2, if_false, h7]
      exact Rel2.cons (steps_plain a h hp h2) Rel2.nil

/-! ### `reconcile_as4` on a list with distinct attribute codes -/

theorem findFirst_some_mem {c : Nat} {l : List Attr} {x : Attr} (h : findFirst c l = some x) : x ∈ l ∧ x.code = c := by
  induction l with
  | nil => cases h
  | cons a rest ih =>
      simp only [findFirst] at h
      split at h
      · rename_i hc; injection h with h; subst h; exact ⟨by simp, hc⟩
      · obtain ⟨h1, h2⟩ := ih h; exact ⟨by simp [h1], h2⟩

theorem findFirst_none {c : Nat} {l : List Attr} (h : ∀ x ∈ l, x.code ≠ c) : findFirst c l = none := by
  induction l with
  | nil => rfl
  | cons a rest ih =>
      simp only [findFirst, h a (by simp), if_false]
      exact ih (fun x hx => h x (by simp [hx]))

theorem findFirst_of_mem {c : Nat} {l : List Attr} {x : Attr} (hnd : (l.map (·.code)).Nodup) (hx : x ∈ l)
    (hc : x.code = c) : findFirst c l = some x := by
  induction l with
  | nil => cases hx
  | cons a rest ih =>
      simp only [List.map_cons, List.nodup_cons] at hnd
      simp only [findFirst]
      rcases List.mem_cons.mp hx with rfl | hx
      · simp [hc]
      · have hne : a.code ≠ c := by
          intro hac; apply hnd.1; rw [hac, ← hc]; exact List.mem_map_of_mem hx
        simp only [hne, if_false]
        exact ih hnd.2 hx

theorem removeFirst_nodup (c : Nat) (l : List Attr) (hnd : (l.map (·.code)).Nodup) :
    removeFirst c l = (findFirst c l, l.filter (fun x => decide (x.code ≠ c))) := by
  induction l with
  | nil => rfl
  | cons a rest ih =>
      simp only [List.map_cons, List.nodup_cons] at hnd
      simp only [removeFirst, findFirst]
      by_cases hac : a.code = c
      · simp only [hac, if_true, List.filter_cons, ne_eq, not_true_eq_false, decide_false, Bool.false_eq_true, if_false]
        congr 1
        symm
        rw [List.filter_eq_self]
        intro x hx
        have : x.code ≠ c := by
          intro hxc; apply hnd.1; rw [hac, ← hxc]; exact List.mem_map_of_mem hx
        simp [this]
      · simp only [hac, if_false, ih hnd.2, List.filter_cons, ne_eq, not_false_eq_true, decide_true, if_true]

theorem replaceFirst_nodup (c : Nat) (b : Attr) (l : List Attr) (hnd : (l.map (·.code)).Nodup) :
    replaceFirst c b l = l.map (fun x => if x.code = c then b else x) := by
  induction l with
  | nil => rfl
  | cons a rest ih =>
      simp only [List.map_cons, List.nodup_cons] at hnd
      simp only [replaceFirst, List.map_cons]
      by_cases hac : a.code = c
      · simp only [hac, if_true, List.cons.injEq, true_and]
        symm
        have : ∀ x ∈ rest, (if x.code = c then b else x) = x := by
          intro x hx
          have : x.code ≠ c := by
            intro hxc; apply hnd.1; rw [hac, ← hxc]; exact List.mem_map_of_mem hx
          simp [this]
        exact (List.map_congr_left this).trans (List.map_id _)
      · simp only [hac, if_false, ih hnd.2]

theorem nodup_filter_codes (l : List Attr) (q : Attr → Bool) (hnd : (l.map (·.code)).Nodup) :
    ((l.filter q).map (·.code)).Nodup :=
  List.Nodup.sublist (List.Sublist.map _ (List.filter_sublist)) hnd

/-! ### the decoded list of a whole attribute block -/

/-- first decoded attribute of `pre2 a` (it has the code of `a`) -/
def hd2 (a : Attr) : Attr := if a.code = 2 then upAttr a else if a.code = 7 then aggUpAttr a else wireAttr a

/-- the attribute the peer ends up with for `a` after `reconcile_as4` -/
def fin2 (a : Attr) : Attr :=
  if a.code = 2 then ⟨2, (rawOf (downAttr a)).flags, a.data⟩
  else if a.code = 7 then ⟨7, (rawOf (aggDownAttr a)).flags, a.data⟩
  else wireAttr a

theorem hd2_code (a : Attr) : (hd2 a).code = a.code := by
  unfold hd2; split
  · rename_i h; simp [upAttr, h]
  · split
    · rename_i h; simp [aggUpAttr, h]
    · rfl

/-- the AS4_* attributes decoded next to `hd2 a` -/
def ext2 (a : Attr) : List Attr :=
  if a.code = 2 then (if hasWideSegs (asSegs a) then [wireAttr (as4PathAttr a)] else [])
  else if a.code = 7 then (if aggAsn a > 65535 then [wireAttr (as4AggAttr a)] else [])
  else []

theorem pre2_eq (a : Attr) : pre2 a = hd2 a :: ext2 a := by
  unfold pre2 hd2 ext2
  by_cases h2 : a.code = 2
  · simp [h2]
  · by_cases h7 : a.code = 7
    · simp [h2, h7]
    · simp [h2, h7]

theorem ext2_code (a : Attr) (x : Attr) (hx : x ∈ ext2 a) :
    (x.code = 17 ∧ a.code = 2 ∧ x = wireAttr (as4PathAttr a)) ∨ (x.code = 18 ∧ a.code = 7 ∧ x = wireAttr (as4AggAttr a)) := by
  unfold ext2 at hx
  by_cases h2 : a.code = 2
  · rw [if_pos h2] at hx
    by_cases hw : hasWideSegs (asSegs a) = true
    · rw [if_pos hw] at hx
      have := List.mem_singleton.mp hx; subst this; exact Or.inl ⟨rfl, h2, rfl⟩
    · rw [if_neg hw] at hx; cases hx
  · rw [if_neg h2] at hx
    by_cases h7 : a.code = 7
    · rw [if_pos h7] at hx
      by_cases hw : aggAsn a > 65535
      · rw [if_pos hw] at hx
        have := List.mem_singleton.mp hx; subst this; exact Or.inr ⟨rfl, h7, rfl⟩
      · rw [if_neg hw] at hx; cases hx
    · rw [if_neg h7] at hx; cases hx

/-- membership in the decoded list -/
theorem mem_pre2 (attrs : List Attr) (x : Attr) :
    x ∈ attrs.flatMap pre2 ↔ ∃ a ∈ attrs, x = hd2 a ∨ x ∈ ext2 a := by
  simp only [List.mem_flatMap, pre2_eq, List.mem_cons]

theorem nodup_pre2 (attrs : List Attr) (hok : AttrsOk attrs) : ((attrs.flatMap pre2).map (·.code)).Nodup := by
  obtain ⟨hall, hnd⟩ := hok
  induction attrs with
  | nil => exact List.nodup_nil
  | cons a rest ih =>
      have hnd' := (List.nodup_cons.mp hnd).2
      have hnotin := (List.nodup_cons.mp hnd).1
      have ih' := ih (fun x hx => hall x (by simp [hx])) hnd'
      have hpa := (hall a (by simp)).2
      obtain ⟨_, _, _, h17, h18⟩ := hpa
      simp only [List.flatMap_cons, List.map_append, pre2_eq a, List.map_cons]
      -- codes of the other attributes' decoded forms
      have hrest : ∀ c ∈ (rest.flatMap pre2).map (·.code),
          (∃ b ∈ rest, c = b.code) ∨ (c = 17 ∧ ∃ b ∈ rest, b.code = 2) ∨ (c = 18 ∧ ∃ b ∈ rest, b.code = 7) := by
        intro c hc
        obtain ⟨x, hx, rfl⟩ := List.mem_map.mp hc
        obtain ⟨b, hb, hxb⟩ := (mem_pre2 rest x).mp hx
        rcases hxb with rfl | hxb
        · exact Or.inl ⟨b, hb, hd2_code b⟩
        · rcases ext2_code b x hxb with ⟨h1, h2, _⟩ | ⟨h1, h2, _⟩
          · exact Or.inr (Or.inl ⟨h1, b, hb, h2⟩)
          · exact Or.inr (Or.inr ⟨h1, b, hb, h2⟩)
      have hnot : ∀ b ∈ rest, b.code ≠ a.code := by
        intro b hb hbc; apply hnotin
        show a.code ∈ rest.map (·.code)
        rw [← hbc]; exact List.mem_map_of_mem hb
      have hplain : ∀ b ∈ rest, b.code ≠ 17 ∧ b.code ≠ 18 := fun b hb =>
        ⟨(hall b (by simp [hb])).2.2.2.2.1, (hall b (by simp [hb])).2.2.2.2.2⟩
      -- the head code
      have hhd : (hd2 a).code ∉ (ext2 a).map (·.code) ++ (rest.flatMap pre2).map (·.code) := by
        rw [hd2_code]
        intro hm
        rcases List.mem_append.mp hm with hm | hm
        · obtain ⟨x, hx, hxc⟩ := List.mem_map.mp hm
          rcases ext2_code a x hx with ⟨h1, _, _⟩ | ⟨h1, _, _⟩ <;> omega
        · rcases hrest _ hm with ⟨b, hb, hbc⟩ | ⟨hc, _⟩ | ⟨hc, _⟩
          · exact hnot b hb hbc.symm
          · exact h17 hc
          · exact h18 hc
      refine List.nodup_cons.mpr ⟨hhd, ?_⟩
      -- the extension (at most one element) and the rest
      have hext : ext2 a = [] ∨ (ext2 a = [wireAttr (as4PathAttr a)] ∧ a.code = 2) ∨
          (ext2 a = [wireAttr (as4AggAttr a)] ∧ a.code = 7) := by
        unfold ext2
        by_cases h2 : a.code = 2
        · rw [if_pos h2]
          by_cases hw : hasWideSegs (asSegs a) = true
          · rw [if_pos hw]; exact Or.inr (Or.inl ⟨rfl, h2⟩)
          · rw [if_neg hw]; exact Or.inl rfl
        · rw [if_neg h2]
          by_cases h7 : a.code = 7
          · rw [if_pos h7]
            by_cases hw : aggAsn a > 65535
            · rw [if_pos hw]; exact Or.inr (Or.inr ⟨rfl, h7⟩)
            · rw [if_neg hw]; exact Or.inl rfl
          · rw [if_neg h7]; exact Or.inl rfl
      rcases hext with he | ⟨he, h2⟩ | ⟨he, h7⟩
      · rw [he]; simpa using ih'
      · rw [he]
        simp only [List.map_cons, List.map_nil, List.cons_append, List.nil_append]
        refine List.nodup_cons.mpr ⟨?_, ih'⟩
        intro hm
        have hc17 : (wireAttr (as4PathAttr a)).code = 17 := rfl
        rw [hc17] at hm
        rcases hrest _ hm with ⟨b, hb, hbc⟩ | ⟨_, b, hb, hb2⟩ | ⟨hc, _⟩
        · exact (hplain b hb).1 hbc.symm
        · exact hnot b hb (by rw [hb2, h2])
        · omega
      · rw [he]
        simp only [List.map_cons, List.map_nil, List.cons_append, List.nil_append]
        refine List.nodup_cons.mpr ⟨?_, ih'⟩
        intro hm
        have hc18 : (wireAttr (as4AggAttr a)).code = 18 := rfl
        rw [hc18] at hm
        rcases hrest _ hm with ⟨b, hb, hbc⟩ | ⟨hc, _⟩ | ⟨_, b, hb, hb7⟩
        · exact (hplain b hb).2 hbc.symm
        · omega
        · exact hnot b hb (by rw [hb7, h7])

/-- dropping the AS4_* attributes leaves one decoded attribute per input attribute -/
theorem keep_pre2 (attrs : List Attr) (hplain : ∀ a ∈ attrs, a.code ≠ 17 ∧ a.code ≠ 18) :
    ((attrs.flatMap pre2).filter (fun x => decide (x.code ≠ 17))).filter (fun x => decide (x.code ≠ 18)) = attrs.map hd2 := by
  induction attrs with
  | nil => rfl
  | cons a rest ih =>
      have ih' := ih (fun x hx => hplain x (by simp [hx]))
      obtain ⟨h17, h18⟩ := hplain a (by simp)
      simp only [List.flatMap_cons, List.filter_append, List.map_cons, ih', pre2_eq a, List.filter_cons, hd2_code,
        ne_eq, h17, h18, not_false_eq_true, decide_true, if_true, List.cons_append, List.cons.injEq, true_and]
      have : ((ext2 a).filter (fun x => decide (x.code ≠ 17))).filter (fun x => decide (x.code ≠ 18)) = [] := by
        rw [List.filter_filter, List.filter_eq_nil_iff]
        intro x hx
        rcases ext2_code a x hx with ⟨h1, _, _⟩ | ⟨h1, _, _⟩ <;> simp [h1]
      rw [this]; rfl

theorem findFirst_filter_ne (c d : Nat) (l : List Attr) (h : c ≠ d) :
    findFirst c (l.filter (fun x => decide (x.code ≠ d))) = findFirst c l := by
  induction l with
  | nil => rfl
  | cons a rest ih =>
      rw [List.filter_cons]
      by_cases had : a.code = d
      · have hac : ¬ a.code = c := by omega
        simp only [had, ne_eq, not_true_eq_false, decide_false, Bool.false_eq_true, if_false, ih]
        simp only [findFirst, hac, if_false]
      · simp only [ne_eq, had, not_false_eq_true, decide_true, if_true, findFirst, ih]

theorem findFirst_map_hd (attrs : List Attr) (g : Attr → Attr) (hg : ∀ a, (g a).code = a.code) (c : Nat) :
    findFirst c (attrs.map g) = (findFirst c attrs).map g := by
  induction attrs with
  | nil => rfl
  | cons a rest ih =>
      simp only [List.map_cons, findFirst, hg a]
      split
      · rfl
      · exact ih

/-- the 8-byte AGGREGATOR value is its AS number followed by the address -/
theorem aggr_split (b : Bytes) (hl : b.length = 8) (hb : BytesOk b) :
    be32 (beNat (b.take 4)) ++ (b.drop 4).take 4 = b := by
  have h4 : (b.take 4).length = 4 := by simp [List.length_take]; omega
  rw [(beNat4_lt (b.take 4) h4 (hb.take 4)).2]
  have : (b.drop 4).take 4 = b.drop 4 := List.take_of_length_le (by simp [List.length_drop]; omega)
  rw [this, List.take_append_drop]

/-- **`reconcile_as4` gives back every attribute** (flags as on the wire): AS_PATH from AS_PATH + AS4_PATH, AGGREGATOR
    from AGGREGATOR + AS4_AGGREGATOR — provided the AS_PATH is carriable (RFC 6793 limits excluded). -/
theorem reconcile_pre2 (attrs : List Attr) (hok : AttrsOk attrs) (hcar : ∀ a ∈ attrs, Carriable a) :
    reconcileAs4 (attrs.flatMap pre2) = attrs.map fin2 := by
  have hndL := nodup_pre2 attrs hok
  have hplain : ∀ a ∈ attrs, a.code ≠ 17 ∧ a.code ≠ 18 := fun a ha =>
    ⟨(hok.1 a ha).2.2.2.2.1, (hok.1 a ha).2.2.2.2.2⟩
  have hK := keep_pre2 attrs hplain
  have hndK : ((attrs.map hd2).map (·.code)).Nodup := by
    rw [List.map_map]
    have : ((·.code) ∘ hd2) = (·.code) := by funext a; exact hd2_code a
    rw [this]; exact hok.2
  -- uniqueness of the attribute with a given code
  have huniq : ∀ a ∈ attrs, ∀ b ∈ attrs, a.code = b.code → a = b := by
    intro a ha b hb hab
    have := hok.2
    clear hK hndK hndL hplain hcar
    induction attrs with
    | nil => cases ha
    | cons x rest ih =>
        have hnd := List.nodup_cons.mp this
        rcases List.mem_cons.mp ha with rfl | ha' <;> rcases List.mem_cons.mp hb with rfl | hb'
        · rfl
        · exact absurd (List.mem_map.mpr ⟨b, hb', hab.symm⟩) hnd.1
        · exact absurd (List.mem_map.mpr ⟨a, ha', hab⟩) hnd.1
        · exact ih ⟨fun y hy => hok.1 y (by simp [hy]), hnd.2⟩ ha' hb' hnd.2
  unfold reconcileAs4
  simp only
  rw [removeFirst_nodup 17 _ hndL]
  simp only
  rw [removeFirst_nodup 18 _ (nodup_filter_codes _ _ hndL), findFirst_filter_ne 18 17 _ (by decide)]
  simp only
  rw [hK]
  -- stage 1: AGGREGATOR
  have hstage1 : reconAgg (findFirst 18 (attrs.flatMap pre2)) (attrs.map hd2)
      = (attrs.map (fun a => if a.code = 7 then fin2 a else hd2 a), false) := by
    unfold reconAgg
    by_cases hex : ∃ a ∈ attrs, a.code = 7 ∧ aggAsn a > 65535
    · obtain ⟨a7, ha7, hc7, hw7⟩ := hex
      have h18 : findFirst 18 (attrs.flatMap pre2) = some (wireAttr (as4AggAttr a7)) := by
        apply findFirst_of_mem (c := 18) hndL _ rfl
        rw [mem_pre2]
        exact ⟨a7, ha7, Or.inr (by simp [ext2, hc7, hw7])⟩
      have h7 : findFirst 7 (attrs.map hd2) = some (hd2 a7) := by
        apply findFirst_of_mem hndK (List.mem_map_of_mem ha7)
        rw [hd2_code]; exact hc7
      rw [h18, h7]
      have hhd : hd2 a7 = aggUpAttr a7 := by simp [hd2, hc7]
      have htr : beNat ((be32 TRANS_ASN ++ ((wireValue a7).drop 4).take 4).take 4) = TRANS_ASN := by
        rw [List.take_left' (be32_length _)]; exact beNat_be32 (by simp [TRANS_ASN])
      simp only [hhd, aggUpAttr, hw7, if_true, AData.binary?, wireAttr, as4AggAttr, htr]
      rw [replaceFirst_nodup 7 _ _ hndK, List.map_map]
      congr 1
      apply List.map_congr_left
      intro a ha
      simp only [Function.comp, hd2_code]
      by_cases hc : a.code = 7
      · have := huniq a ha a7 ha7 (by rw [hc, hc7]); subst this
        obtain ⟨b, hd, hwv, _, _⟩ := aggr_of_attrOk a (hok.1 a ha).1 hc
        simp [hc, fin2, hd, hwv, aggDownAttr]
      · simp [hc]
    · have h18 : findFirst 18 (attrs.flatMap pre2) = none := by
        apply findFirst_none
        intro x hx hxc
        obtain ⟨a, ha, hxa⟩ := (mem_pre2 attrs x).mp hx
        rcases hxa with rfl | hxa
        · rw [hd2_code] at hxc; exact (hplain a ha).2 hxc
        · rcases ext2_code a x hxa with ⟨h1, _, _⟩ | ⟨_, h7, hxe⟩
          · omega
          · apply hex
            refine ⟨a, ha, h7, ?_⟩
            by_cases hw : aggAsn a > 65535
            · exact hw
            · simp [ext2, h7, hw] at hxa
      rw [h18]
      simp only
      congr 1
      apply List.map_congr_left
      intro a ha
      by_cases hc : a.code = 7
      · have hn : ¬ aggAsn a > 65535 := fun hw => hex ⟨a, ha, hc, hw⟩
        obtain ⟨b, hd, hwv, hl8, hbk⟩ := aggr_of_attrOk a (hok.1 a ha).1 hc
        have := aggr_split b hl8 hbk
        have hn' : ¬ beNat (b.take 4) > 65535 := by simpa [aggAsn, hwv] using hn
        simp only [hc, if_true, hd2, show ¬ ((7 : Nat) = 2) by decide, if_false, aggUpAttr, fin2, hd, aggAsn, hwv, hn']
        rw [this]
      · simp [hc]
  rw [hstage1]
  simp only [Bool.false_eq_true, if_false]
  unfold reconPath
  -- stage 2: AS_PATH
  have hndK' : ((attrs.map (fun a => if a.code = 7 then fin2 a else hd2 a)).map (·.code)).Nodup := by
    rw [List.map_map]
    have : ((·.code) ∘ (fun a => if a.code = 7 then fin2 a else hd2 a)) = (·.code) := by
      funext a
      simp only [Function.comp]
      split
      · rename_i h; simp [fin2, h]
      · exact hd2_code a
    rw [this]; exact hok.2
  by_cases hex : ∃ a ∈ attrs, a.code = 2 ∧ hasWideSegs (asSegs a) = true
  · obtain ⟨a2, ha2, hc2, hw2⟩ := hex
    have h17 : findFirst 17 (attrs.flatMap pre2) = some (wireAttr (as4PathAttr a2)) := by
      apply findFirst_of_mem (c := 17) hndL _ rfl
      rw [mem_pre2]
      exact ⟨a2, ha2, Or.inr (by simp [ext2, hc2, hw2])⟩
    have h2 : findFirst 2 (attrs.map (fun a => if a.code = 7 then fin2 a else hd2 a)) = some (upAttr a2) := by
      have : upAttr a2 = (fun a => if a.code = 7 then fin2 a else hd2 a) a2 := by simp [hc2, hd2]
      rw [this]
      apply findFirst_of_mem hndK' (List.mem_map_of_mem ha2)
      simp [hc2, hd2, upAttr]
    rw [h17, h2]
    obtain ⟨b, segs, hd, hwv, hp, _, henc, hsok, _⟩ := aspath_of_attrOk a2 (hok.1 a2 ha2).1 hc2
    have hsegs : asSegs a2 = segs := by simp [asSegs, hwv, hp]
    have hcl : confedLeading segs = true := by
      have := hcar a2 ha2 hc2; rw [hsegs] at this; exact this (by rw [← hsegs]; exact hw2)
    -- the function-level AS4 round trip
    obtain ⟨d, hdn, up, hup, hrt⟩ := as4_roundtrip segs hsok (fun _ => hcl)
    rw [henc] at hdn hrt
    have hdn' : asPathDowngrade b = .ok (encSegs 2 (downSegs segs)) := by
      simp only [asPathDowngrade, hp, downSegs]; rfl
    rw [hdn'] at hdn
    injection hdn with hdn
    subst hdn
    rw [parseSegs_enc 2 (Or.inl rfl) _ (downSegs_ok segs hsok)] at hup
    injection hup with hup
    subst hup
    have hwide : asPathHasWide b = true := by
      simp only [asPathHasWide, hp]; rw [← hsegs]; exact hw2
    have hstrip : asPathStripConfed b = encSegs 4 (segs.filter nonConfedSeg) := by
      simp only [asPathStripConfed, hp]; rfl
    rw [hwide, if_pos rfl, hstrip] at hrt
    simp only [upAttr, AData.binary?, wireAttr, as4PathAttr, hsegs, hrt]
    rw [replaceFirst_nodup 2 _ _ hndK', List.map_map]
    apply List.map_congr_left
    intro a ha
    simp only [Function.comp]
    by_cases hc : a.code = 2
    · have := huniq a ha a2 ha2 (by rw [hc, hc2]); subst this
      simp [hc, hd2, upAttr, fin2, hd, downAttr, hsegs]
    · by_cases hc7 : a.code = 7
      · simp [hc7, fin2]
      · simp only [hc7, if_false, hd2, hc, fin2]
        have : ¬ (wireAttr a).code = 2 := hc
        simp [this]
  · have h17 : findFirst 17 (attrs.flatMap pre2) = none := by
      apply findFirst_none
      intro x hx hxc
      obtain ⟨a, ha, hxa⟩ := (mem_pre2 attrs x).mp hx
      rcases hxa with rfl | hxa
      · rw [hd2_code] at hxc; exact (hplain a ha).1 hxc
      · rcases ext2_code a x hxa with ⟨_, h2, _⟩ | ⟨h1, _, _⟩
        · apply hex
          refine ⟨a, ha, h2, ?_⟩
          by_cases hw : hasWideSegs (asSegs a) = true
          · exact hw
          · simp [ext2, h2, hw] at hxa
        · omega
    rw [h17]
    simp only
    apply List.map_congr_left
    intro a ha
    by_cases hc : a.code = 2
    · have hn : hasWideSegs (asSegs a) = false := by
        cases hw : hasWideSegs (asSegs a) with
        | false => rfl
        | true => exact absurd ⟨a, ha, hc, hw⟩ hex
      obtain ⟨b, segs, hd, hwv, hp, _, henc, _, _⟩ := aspath_of_attrOk a (hok.1 a ha).1 hc
      have hsegs : asSegs a = segs := by simp [asSegs, hwv, hp]
      rw [hsegs] at hn
      simp [hc, hd2, upAttr, fin2, hd, hsegs, downSegs_id segs hn, henc]
    · by_cases hc7 : a.code = 7
      · simp [hc7]
      · simp [hc, hc7, hd2, fin2]

end Rbgp.Enc
