/-
  Rbgp.Enc.Proofs.Structs — the modelled NLRI codecs together (VPN-IPv4/IPv6, labeled unicast, Flow Specification with
  its VPN form, EVPN route types 1 - 5), in the form the model run uses them.
-/
import Rbgp.Enc.Proofs.Flow
import Rbgp.Enc.Proofs.Evpn
namespace Rbgp.Enc

/-- the structured NLRIs that have a wire form (`wd` = sent in MP_UNREACH_NLRI) -/
def NStruct.Wf (wd : Bool) : NStruct → Prop
  | .vpn ls rd addr mask =>
      ls ≠ [] ∧ (∀ l ∈ ls, l < 1048576) ∧ RdOk rd ∧ mask ≤ 8 * addr.length ∧ AddrCanon addr mask ∧
        24 * ls.length + 64 + mask ≤ 255
  | .lab ls addr mask =>
      mask ≤ 8 * addr.length ∧ AddrCanon addr mask ∧
        (if wd then 24 + mask ≤ 255 else ls ≠ [] ∧ (∀ l ∈ ls, l < 1048576) ∧ 24 * ls.length + mask ≤ 255)
  | .flow v6 rd cs =>
      (∀ c ∈ cs, c.Wf v6) ∧ (∀ r, rd = some r → RdOk r) ∧
        ∃ b, compsBytes v6 cs = .ok b ∧ (if rd.isSome then 8 else 0) + b.length ≤ 4095
  | .evpn r => r.Wf

/-- **All modelled NLRI codecs: decode ∘ encode = id**, in the form the model run uses them: the NLRI encodes, the
    peer's decoder reads the encoding back, and the result is the NLRI that was sent (`nlri_equiv`: a withdrawn
    labeled prefix is compared on the prefix, its labels are not on the wire) -/
theorem nstruct_roundtrip (s : NStruct) (wd : Bool) (h : s.Wf wd) :
    ∃ bs s', s.encode wd = .ok bs ∧ s.decodeLike (!wd) bs = some s' ∧ NStruct.equiv (!wd) s s' = true := by
  cases s with
  | vpn ls rd addr mask =>
      obtain ⟨h1, h2, h3, h4, h5, h6⟩ := h
      obtain ⟨bs, he, _, hd⟩ := vpn_nlri_roundtrip ls rd addr mask wd h1 h2 h3 h4 h5 h6
      exact ⟨bs, _, he, hd, by simp [NStruct.equiv]⟩
  | lab ls addr mask =>
      obtain ⟨h4, h5, h6⟩ := h
      cases wd with
      | true =>
          simp only [if_true] at h6
          obtain ⟨bs, he, _, hd⟩ := labeled_withdraw_roundtrip ls addr mask h4 h5 h6
          exact ⟨bs, _, he, hd, by simp [NStruct.equiv]⟩
      | false =>
          simp only [Bool.false_eq_true, if_false] at h6
          obtain ⟨h1, h2, h3⟩ := h6
          obtain ⟨bs, he, _, hd⟩ := labeled_nlri_roundtrip ls addr mask h1 h2 h4 h5 h3
          exact ⟨bs, _, he, hd, by simp [NStruct.equiv]⟩
  | flow v6 rd cs =>
      obtain ⟨h1, h2, b, hb, hl⟩ := h
      obtain ⟨bs, he, hd⟩ := flow_nlri_roundtrip v6 rd cs wd h1 h2 b hb hl
      exact ⟨bs, _, he, hd, by simp [NStruct.equiv]⟩
  | evpn r =>
      obtain ⟨bs, he, hd⟩ := evpn_nlri_roundtrip r wd h
      exact ⟨bs, _, he, hd, by simp [NStruct.equiv]⟩

/-- an entry whose NLRI is structured and has a wire form -/
def Entry.StructOk (e : Entry) : Prop :=
  ∃ enc dec info s, e.nlri = .opq enc dec info ∧ info.st = some s ∧ s.Wf info.wd

/-- for such entries the per-frame decoder parameter of the model run is not a measurement: it is the modelled codec,
    and it returns every entry as sent -/
theorem combineProbes_struct (ap : Bool) (es : List Entry) (h : ∀ e ∈ es, e.StructOk) :
    combineProbes ap es = .ents (es.map (fun e => ((if ap then e.pid else 0), true))) := by
  induction es with
  | nil => rfl
  | cons e rest ih =>
      obtain ⟨enc, dec, info, s, hn, hs, hw⟩ := h e (by simp)
      obtain ⟨bs, s', he, hd, hq⟩ := nstruct_roundtrip s info.wd hw
      have ih' := ih (fun x hx => h x (by simp [hx]))
      simp only [combineProbes, hn, hs, he, hd, hq, ih', List.map_cons, List.map_nil, List.cons_append,
        List.nil_append]

end Rbgp.Enc
