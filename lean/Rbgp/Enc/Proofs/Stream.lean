/-
  Rbgp.Enc.Proofs.Stream — the chunk loop of `encode_to` as a partition of the entry list, the frame
  splitter and the peer's `try_parse` loop over a concatenation of frames.
-/
import Rbgp.Enc.Proofs.Mp
namespace Rbgp.Enc

/-! ### the chunk loop -/

/-- The chunks a frame function `F` / count function `N` produce: one frame per iteration over the
    remaining entries, as long as progress is made. -/
def chunksOf (F : List Entry → Bytes) (N : List Entry → Nat) (es : List Entry) : List (Bytes × Nat) :=
  match es with
  | [] => []
  | e :: rest =>
      if _h : N (e :: rest) = 0 then [(F (e :: rest), 0)]
      else (F (e :: rest), N (e :: rest)) :: chunksOf F N ((e :: rest).drop (N (e :: rest)))
termination_by es.length
decreasing_by simp [List.length_drop]; omega

theorem encodeLoop_eq (p : Profile) (c : Codec) (m : Msg) (F : List Entry → Bytes) (N : List Entry → Nat)
    (hdo : ∀ es, es ≠ [] → doEncode p c m es = .ok (F es, N es)) (es : List Entry) :
    encodeLoop p c m es = .ok (chunksOf F N es) := by
  induction hl : es.length using Nat.strongRecOn generalizing es with
  | _ n ih =>
      cases es with
      | nil => rw [encodeLoop, chunksOf]
      | cons e rest =>
          rw [encodeLoop, chunksOf, hdo (e :: rest) (by simp)]
          by_cases h0 : N (e :: rest) = 0
          · simp [h0]
          · simp only [h0, dite_false]
            have hlt : ((e :: rest).drop (N (e :: rest))).length < n := by
              rw [← hl]; simp [List.length_drop]; omega
            rw [ih _ hlt _ rfl]

/-- entry slices of the chunks -/
def chunkSlices (N : List Entry → Nat) (es : List Entry) : List (List Entry) :=
  match es with
  | [] => []
  | e :: rest =>
      if _h : N (e :: rest) = 0 then [[]]
      else (e :: rest).take (N (e :: rest)) :: chunkSlices N ((e :: rest).drop (N (e :: rest)))
termination_by es.length
decreasing_by simp [List.length_drop]; omega

/-- **No drop, no duplicate, no reordering**: with progress in every iteration the per-frame entry slices
    concatenate to the input list. -/
theorem chunkSlices_flatten (N : List Entry → Nat) (hpos : ∀ es, es ≠ [] → N es ≠ 0) (es : List Entry) :
    (chunkSlices N es).flatten = es := by
  induction hl : es.length using Nat.strongRecOn generalizing es with
  | _ n ih =>
      cases es with
      | nil => rw [chunkSlices]; rfl
      | cons e rest =>
          rw [chunkSlices]
          have h0 := hpos (e :: rest) (by simp)
          simp only [h0, dite_false, List.flatten_cons]
          have hlt : ((e :: rest).drop (N (e :: rest))).length < n := by
            rw [← hl]; simp [List.length_drop]; omega
          rw [ih _ hlt _ rfl, List.take_append_drop]

theorem chunksOf_counts (F : List Entry → Bytes) (N : List Entry → Nat) (es : List Entry) :
    slices es ((chunksOf F N es).map (·.2)) = chunkSlices N es := by
  induction hl : es.length using Nat.strongRecOn generalizing es with
  | _ n ih =>
      cases es with
      | nil => rw [chunksOf, chunkSlices]; rfl
      | cons e rest =>
          rw [chunksOf, chunkSlices]
          by_cases h0 : N (e :: rest) = 0
          · simp [h0, slices]
          · simp only [h0, dite_false, List.map_cons, slices]
            have hlt : ((e :: rest).drop (N (e :: rest))).length < n := by
              rw [← hl]; simp [List.length_drop]; omega
            rw [ih _ hlt _ rfl]

/-- every chunk is `(F rem, N rem)` for a non-empty suffix `rem` of the list -/
theorem chunksOf_mem (F : List Entry → Bytes) (N : List Entry → Nat) (es : List Entry) (x : Bytes × Nat)
    (hx : x ∈ chunksOf F N es) : ∃ rem, rem ≠ [] ∧ (∃ k, rem = es.drop k) ∧ x = (F rem, N rem) := by
  induction hl : es.length using Nat.strongRecOn generalizing es with
  | _ n ih =>
      cases es with
      | nil => rw [chunksOf] at hx; cases hx
      | cons e rest =>
          rw [chunksOf] at hx
          by_cases h0 : N (e :: rest) = 0
          · simp only [h0, dite_true, List.mem_singleton] at hx
            exact ⟨e :: rest, by simp, ⟨0, rfl⟩, by rw [hx, h0]⟩
          · simp only [h0, dite_false, List.mem_cons] at hx
            rcases hx with hx | hx
            · exact ⟨e :: rest, by simp, ⟨0, rfl⟩, hx⟩
            · have hlt : ((e :: rest).drop (N (e :: rest))).length < n := by
                rw [← hl]; simp [List.length_drop]; omega
              obtain ⟨rem, hne, ⟨k, hk⟩, hxe⟩ := ih _ hlt _ hx rfl
              exact ⟨rem, hne, ⟨N (e :: rest) + k, by rw [hk, List.drop_drop]⟩, hxe⟩

/-! ### frames on the wire -/

theorem splitFrames_nil : splitFrames [] = ([], []) := by
  rw [splitFrames]; simp

theorem splitFrames_frames (frs : List (Nat × Bytes)) (h : ∀ x ∈ frs, 19 + x.2.length < 65536) :
    splitFrames (frs.flatMap (fun x => frame x.1 x.2)) = (frs.map (fun x => frame x.1 x.2), []) := by
  induction frs with
  | nil => simp [splitFrames_nil]
  | cons x xs ih =>
      rw [List.flatMap_cons, splitFrames_frame x.1 x.2 _ (h x (by simp)),
          ih (fun y hy => h y (by simp [hy]))]
      simp

theorem decodeStream_nil (od : OpaqueDec) (c : Codec) : decodeStream od c [] = [] := by
  rw [decodeStream]; simp

theorem decodeStream_frame (od : OpaqueDec) (c : Codec) (ty : Nat) (body rest : Bytes) (q : Parsed)
    (hmax : 19 + body.length ≤ c.maxLen) (hlt : 19 + body.length < 65536)
    (hp : parseMessage od c (frame ty body) = .msg q) :
    decodeStream od c (frame ty body ++ rest) = .msg q :: decodeStream od c rest := by
  rw [decodeStream]
  have he : (frame ty body ++ rest).isEmpty = false := by simp [frame, marker]
  have hl : ¬ (frame ty body ++ rest).length < 19 := by simp; omega
  simp only [he, Bool.false_eq_true, if_false, hl, dite_false]
  rw [frame_lenField, Nat.mod_eq_of_lt hlt, beNat_be16 hlt]
  have h2 : ¬ (19 + body.length < 19 ∨ 19 + body.length > c.maxLen) := by omega
  have h3 : ¬ (frame ty body ++ rest).length < 19 + body.length := by simp
  simp only [h2, dite_false, h3]
  rw [List.take_left' (by simp), List.drop_left' (by simp), hp]

theorem decodeStream_frames (od : OpaqueDec) (c : Codec) (frs : List (Nat × Bytes)) (Q : Nat × Bytes → Parsed)
    (hmax : ∀ x ∈ frs, 19 + x.2.length ≤ c.maxLen) (hlt : ∀ x ∈ frs, 19 + x.2.length < 65536)
    (hp : ∀ x ∈ frs, parseMessage od c (frame x.1 x.2) = .msg (Q x)) :
    decodeStream od c (frs.flatMap (fun x => frame x.1 x.2)) = frs.map (fun x => .msg (Q x)) := by
  induction frs with
  | nil => simp [decodeStream_nil]
  | cons x xs ih =>
      rw [List.flatMap_cons, decodeStream_frame od c x.1 x.2 _ (Q x) (hmax x (by simp)) (hlt x (by simp))
            (hp x (by simp)),
          ih (fun y hy => hmax y (by simp [hy])) (fun y hy => hlt y (by simp [hy]))
            (fun y hy => hp y (by simp [hy]))]
      simp

end Rbgp.Enc
