/-
  Rbgp.Enc.Proofs.Stream — the chunk loop of `encode_to` as a partition of the entry list, the frame
  splitter and the peer's `try_parse` loop over a concatenation of frames.
-/
import Rbgp.Enc.Proofs.Mp
namespace Rbgp.Enc

/-! ### the chunk loop -/

/-- One value `G rem` per iteration of the chunk loop over the remaining entries `rem`; the loop stops after
    an iteration that takes no entry (`N rem = 0`). -/
def chunksG {α : Type} (G : List Entry → α) (N : List Entry → Nat) (es : List Entry) : List α :=
  match es with
  | [] => []
  | e :: rest =>
      if _h : N (e :: rest) = 0 then [G (e :: rest)]
      else G (e :: rest) :: chunksG G N ((e :: rest).drop (N (e :: rest)))
termination_by es.length
decreasing_by simp [List.length_drop]; omega

/-- induction principle following the loop -/
theorem chunksG_induction (N : List Entry → Nat) (motive : List Entry → Prop)
    (hnil : motive [])
    (hstop : ∀ e rest, N (e :: rest) = 0 → motive (e :: rest))
    (hstep : ∀ e rest, N (e :: rest) ≠ 0 → motive ((e :: rest).drop (N (e :: rest))) → motive (e :: rest))
    (es : List Entry) : motive es := by
  induction hl : es.length using Nat.strongRecOn generalizing es with
  | _ n ih =>
      cases es with
      | nil => exact hnil
      | cons e rest =>
          by_cases h0 : N (e :: rest) = 0
          · exact hstop e rest h0
          · apply hstep e rest h0
            have hlt : ((e :: rest).drop (N (e :: rest))).length < n := by
              rw [← hl]; simp [List.length_drop]; omega
            exact ih _ hlt _ rfl

theorem chunksG_map {α β : Type} (G : List Entry → α) (h : α → β) (N : List Entry → Nat) (es : List Entry) :
    (chunksG G N es).map h = chunksG (fun r => h (G r)) N es := by
  induction es using chunksG_induction N with
  | hnil => rw [chunksG, chunksG]; rfl
  | hstop e rest h0 => rw [chunksG, chunksG]; simp [h0]
  | hstep e rest h0 ih => rw [chunksG, chunksG]; simp only [h0, dite_false, List.map_cons, ih]

theorem encodeLoop_eq (p : Profile) (c : Codec) (m : Msg) (F : List Entry → Bytes) (N : List Entry → Nat)
    (S : List Entry → Prop) (hdrop : ∀ r n, S r → S (r.drop n))
    (hdo : ∀ r, r ≠ [] → S r → doEncode p c m r = .ok (F r, N r)) (es : List Entry) (hS : S es) :
    encodeLoop p c m es = .ok (chunksG (fun r => (F r, N r)) N es) := by
  induction es using chunksG_induction N with
  | hnil => rw [encodeLoop, chunksG]
  | hstop e rest h0 =>
      rw [encodeLoop, chunksG, hdo (e :: rest) (by simp) hS]
      simp [h0]
  | hstep e rest h0 ih =>
      rw [encodeLoop, chunksG, hdo (e :: rest) (by simp) hS]
      simp only [h0, dite_false]
      rw [ih (hdrop _ _ hS)]

/-- **No drop, no duplicate, no reordering**: with progress in every iteration the per-frame entry slices
    concatenate to the input list. -/
theorem chunkSlices_flatten (N : List Entry → Nat) (hpos : ∀ r, r ≠ [] → N r ≠ 0) (es : List Entry) :
    (chunksG (fun r => r.take (N r)) N es).flatten = es := by
  induction es using chunksG_induction N with
  | hnil => rw [chunksG]; rfl
  | hstop e rest h0 => exact absurd h0 (hpos _ (by simp))
  | hstep e rest h0 ih =>
      rw [chunksG]
      simp only [h0, dite_false, List.flatten_cons, ih, List.take_append_drop]

/-- the same relative to an invariant of the remaining entries (progress is only needed where it holds) -/
theorem chunkSlices_flatten_S (N : List Entry → Nat) (S : List Entry → Prop) (hdrop : ∀ r n, S r → S (r.drop n))
    (hpos : ∀ r, r ≠ [] → S r → N r ≠ 0) (es : List Entry) (hS : S es) :
    (chunksG (fun r => r.take (N r)) N es).flatten = es := by
  induction es using chunksG_induction N with
  | hnil => rw [chunksG]; rfl
  | hstop e rest h0 => exact absurd h0 (hpos _ (by simp) hS)
  | hstep e rest h0 ih =>
      rw [chunksG]
      simp only [h0, dite_false, List.flatten_cons, ih (hdrop _ _ hS), List.take_append_drop]

theorem chunksG_counts (N : List Entry → Nat) (es : List Entry) :
    slices es (chunksG N N es) = chunksG (fun r => r.take (N r)) N es := by
  induction es using chunksG_induction N with
  | hnil => rw [chunksG, chunksG]; rfl
  | hstop e rest h0 => rw [chunksG, chunksG]; simp [h0, slices]
  | hstep e rest h0 ih =>
      rw [chunksG, chunksG]
      simp only [h0, dite_false, slices, ih]

/-- a property of every `G rem` follows from the property for all non-empty reachable `rem` -/
theorem chunksG_forall {α : Type} (G : List Entry → α) (N : List Entry → Nat) (S : List Entry → Prop)
    (hdrop : ∀ r n, S r → S (r.drop n)) (Pr : α → Prop)
    (h : ∀ r, r ≠ [] → S r → Pr (G r)) (es : List Entry) (hS : S es) :
    ∀ x ∈ chunksG G N es, Pr x := by
  induction es using chunksG_induction N with
  | hnil => rw [chunksG]; intro x hx; cases hx
  | hstop e rest h0 =>
      rw [chunksG]; simp only [h0, dite_true, List.mem_singleton]
      intro x hx; rw [hx]; exact h _ (by simp) hS
  | hstep e rest h0 ih =>
      rw [chunksG]; simp only [h0, dite_false, List.mem_cons]
      intro x hx
      rcases hx with hx | hx
      · rw [hx]; exact h _ (by simp) hS
      · exact ih (hdrop _ _ hS) x hx

/-! ### frames on the wire -/

theorem splitFrames_nil : splitFrames [] = ([], []) := by
  rw [splitFrames]; simp

theorem splitFrames_frames (frs : List (Nat × Bytes)) (h : ∀ x ∈ frs, 19 + x.2.length < 65536) :
    splitFrames (frs.flatMap (fun x => frame x.1 x.2)) = (frs.map (fun x => frame x.1 x.2), []) := by
  induction frs with
  | nil => simp [splitFrames_nil]
  | cons x xs ih =>
      rw [List.flatMap_cons, splitFrames_frame x.1 x.2 _ (h x (by simp)),
          ih (fun y hy => h y (by simp [hy]))]
      simp

theorem decodeStream_nil (od : OpaqueDec) (c : Codec) : decodeStream od c [] = [] := by
  rw [decodeStream]; simp

theorem decodeStream_frame (od : OpaqueDec) (c : Codec) (ty : Nat) (body rest : Bytes) (q : Parsed)
    (hmax : 19 + body.length ≤ c.maxLen) (hlt : 19 + body.length < 65536)
    (hp : parseMessage od c (frame ty body) = .msg q) :
    decodeStream od c (frame ty body ++ rest) = .msg q :: decodeStream od c rest := by
  rw [decodeStream]
  have he : (frame ty body ++ rest).isEmpty = false := by simp [frame, marker]
  have hl : ¬ (frame ty body ++ rest).length < 19 := by simp; omega
  simp only [he, Bool.false_eq_true, if_false, hl, dite_false]
  rw [frame_lenField, Nat.mod_eq_of_lt hlt, beNat_be16 hlt]
  have h2 : ¬ (19 + body.length < 19 ∨ 19 + body.length > c.maxLen) := by omega
  have h3 : ¬ (frame ty body ++ rest).length < 19 + body.length := by simp
  simp only [h2, dite_false, h3]
  rw [List.take_left' (by simp), List.drop_left' (by simp), hp]

theorem decodeStream_frames (od : OpaqueDec) (c : Codec) (frs : List (Nat × Bytes)) (Q : Nat × Bytes → Parsed)
    (hmax : ∀ x ∈ frs, 19 + x.2.length ≤ c.maxLen) (hlt : ∀ x ∈ frs, 19 + x.2.length < 65536)
    (hp : ∀ x ∈ frs, parseMessage od c (frame x.1 x.2) = .msg (Q x)) :
    decodeStream od c (frs.flatMap (fun x => frame x.1 x.2)) = frs.map (fun x => .msg (Q x)) := by
  induction frs with
  | nil => simp [decodeStream_nil]
  | cons x xs ih =>
      rw [List.flatMap_cons, decodeStream_frame od c x.1 x.2 _ (Q x) (hmax x (by simp)) (hlt x (by simp))
            (hp x (by simp)),
          ih (fun y hy => hmax y (by simp [hy])) (fun y hy => hlt y (by simp [hy]))
            (fun y hy => hp y (by simp [hy]))]
      simp

end Rbgp.Enc
