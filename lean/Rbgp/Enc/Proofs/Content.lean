/-
  Rbgp.Enc.Proofs.Content — the content clause: decoded entries are the input entries as (prefix, path-id)
  multiset, same next hop, same attributes up to the extended-length flag.
-/
import Rbgp.Enc.Proofs.Check
namespace Rbgp.Enc
open Rbgp.Enc.Spec

theorem maskAddr_trunc (addr : Bytes) (mask : Nat) (hc : ceil8 mask ≤ addr.length) :
    maskAddr (addr.take (ceil8 mask) ++ List.replicate (addr.length - ceil8 mask) 0) mask = maskAddr addr mask := by
  unfold maskAddr
  have hlen : (addr.take (ceil8 mask) ++ List.replicate (addr.length - ceil8 mask) 0).length = addr.length := by
    simp [List.length_take]; omega
  rw [hlen]
  apply List.map_congr_left
  intro k hk
  have hk' : k < addr.length := List.mem_range.mp hk
  by_cases hkc : k < ceil8 mask
  · have : (addr.take (ceil8 mask) ++ List.replicate (addr.length - ceil8 mask) 0).getD k 0 = addr.getD k 0 := by
      simp only [List.getD_eq_getElem?_getD]
      rw [List.getElem?_append_left (by simp [List.length_take]; omega), List.getElem?_take_of_lt hkc]
    simp only [this]
  · have h8 : 8 * k ≥ mask := by unfold ceil8 at hkc; omega
    have h9 : ¬ 8 * (k + 1) ≤ mask := by omega
    simp only [h9, if_false, h8, ge_iff_le, if_true]

theorem key_decE (v6 ap : Bool) (e : Entry) (h : IpEntryOk v6 e) (hp : ap = false → e.pid = 0) :
    outKey (decE v6 ap e) = inKey e := by
  obtain ⟨addr, mask, hn, hl, hm, _⟩ := h
  have hc : ceil8 mask ≤ addr.length := by rw [hl]; exact ceil8_le hm
  have hpid : (if ap = true then e.pid else 0) = e.pid := by
    cases ap with
    | true => rfl
    | false => simp [hp rfl]
  simp only [decE, hn, decIp, outKey, inKey, keyOf, hpid]
  rw [← hl, maskAddr_trunc addr mask hc]

theorem keys_decE (v6 ap : Bool) (es : List Entry) (h : ∀ e ∈ es, IpEntryOk v6 e)
    (hp : ap = false → ∀ e ∈ es, e.pid = 0) :
    (es.map (decE v6 ap)).filterMap outKey = es.filterMap inKey := by
  induction es with
  | nil => rfl
  | cons e es ih =>
      rw [List.map_cons, List.filterMap_cons, List.filterMap_cons,
          key_decE v6 ap e (h e (by simp)) (fun ha => hp ha e (by simp)),
          ih (fun x hx => h x (by simp [hx])) (fun ha x hx => hp ha x (by simp [hx]))]

theorem compareEntries_ok (v6 ap : Bool) (es : List Entry) (h : ∀ e ∈ es, IpEntryOk v6 e)
    (hp : ap = false → ∀ e ∈ es, e.pid = 0) :
    compareEntries es (es.map (decE v6 ap)) = none := by
  unfold compareEntries
  have hopq : es.any entryIsOpq = false := by
    rw [List.any_eq_false]
    intro e he
    obtain ⟨addr, mask, hn, _⟩ := h e he
    simp [entryIsOpq, hn]
  simp only [hopq, Bool.false_eq_true, if_false, keys_decE v6 ap es h hp]
  simp

/-! ### shapes of the decoded UPDATEs -/

def qReach (legacy : Bool) (f : Fam) (nh : Nh) (fin : List Attr) (d : List DEntry) : Parsed :=
  if legacy then .upd (some (f, some nh, d)) none none none fin []
  else .upd none (some (f, some nh, d)) none none fin []

def qUnreach (legacy : Bool) (f : Fam) (d : List DEntry) : Parsed :=
  if legacy then .upd none none (some (f, d)) none [] []
  else .upd none none none (some (f, d)) [] []

theorem carried_qReach (legacy : Bool) (f : Fam) (nh : Nh) (fin : List Attr) (d : List DEntry) :
    carried (qReach legacy f nh fin d) = ([⟨f, some (some nh), d⟩], []) := by
  cases legacy <;> simp [qReach, carried]

theorem carried_qUnreach (legacy : Bool) (f : Fam) (d : List DEntry) :
    carried (qUnreach legacy f d) = ([], [⟨f, none, d⟩]) := by
  cases legacy <;> simp [qUnreach, carried]

theorem flatMap_map_flatten {α β} (L : List (List α)) (g : α → β) :
    L.flatMap (fun sl => sl.map g) = L.flatten.map g := by
  induction L with
  | nil => rfl
  | cons x xs ih => simp [List.flatMap_cons, ih]

theorem flatMap_fst_single {α β : Type} (L : List α) (g : α → β) :
    (L.map (fun x => (([g x] : List β), ([] : List β)))).flatMap (·.1) = L.map g := by
  induction L with
  | nil => rfl
  | cons x xs ih => simp [List.flatMap_cons, ih]

theorem flatMap_snd_empty {α β : Type} (L : List α) (g : α → β) :
    (L.map (fun x => (([g x] : List β), ([] : List β)))).flatMap (·.2) = [] := by
  induction L with
  | nil => rfl
  | cons x xs ih => simp [List.flatMap_cons, ih]

theorem flatMap_snd_single {α β : Type} (L : List α) (g : α → β) :
    (L.map (fun x => (([] : List β), ([g x] : List β)))).flatMap (·.2) = L.map g := by
  induction L with
  | nil => rfl
  | cons x xs ih => simp [List.flatMap_cons, ih]

theorem flatMap_fst_empty {α β : Type} (L : List α) (g : α → β) :
    (L.map (fun x => (([] : List β), ([g x] : List β)))).flatMap (·.1) = [] := by
  induction L with
  | nil => rfl
  | cons x xs ih => simp [List.flatMap_cons, ih]

theorem attrsVerdict_qReach (legacy : Bool) (f : Fam) (nh : Nh) (fin : List Attr) (d : List DEntry) (want : List Attr)
    (h : sortAttrs (fin.map canonAttr) = want) :
    attrsVerdict want (qReach legacy f nh fin d) = none := by
  cases legacy <;> simp [qReach, attrsVerdict, h]

theorem checkUpdate_reach_ok (i : Input) (f : Fam) (nh : Nh) (attrs : List Attr) (es : List Entry)
    (legacy v6 ap : Bool) (fin : List Attr) (L : List (List Entry))
    (hL : L.flatten = es) (hes : ∀ e ∈ es, IpEntryOk v6 e) (hp : ap = false → ∀ e ∈ es, e.pid = 0)
    (hfin : sortAttrs (fin.map canonAttr) = sortAttrs (attrs.map canonAttr)) :
    checkUpdate i f true (some nh) attrs es
      (L.map (fun sl => qReach legacy f nh fin (sl.map (decE v6 ap)))) = none := by
  unfold checkUpdate
  have hany : (L.map (fun sl => qReach legacy f nh fin (sl.map (decE v6 ap)))).any (notRouteUpd es.isEmpty) = false := by
    rw [List.any_eq_false]
    intro x hx
    obtain ⟨sl, _, rfl⟩ := List.mem_map.mp hx
    cases legacy <;> simp [qReach, notRouteUpd]
  have hsec : (L.map (fun sl => qReach legacy f nh fin (sl.map (decE v6 ap)))).map carried
      = L.map (fun sl => (([⟨f, some (some nh), sl.map (decE v6 ap)⟩] : List Carried), ([] : List Carried))) := by
    rw [List.map_map]
    apply List.map_congr_left
    intro sl _
    exact carried_qReach legacy f nh fin _
  simp only [hany, Bool.false_eq_true, if_false, hsec, if_true]
  have hreach : (L.map (fun sl => (([⟨f, some (some nh), sl.map (decE v6 ap)⟩] : List Carried), ([] : List Carried)))).flatMap (·.1)
      = L.map (fun sl => (⟨f, some (some nh), sl.map (decE v6 ap)⟩ : Carried)) :=
    flatMap_fst_single L (fun sl => (⟨f, some (some nh), sl.map (decE v6 ap)⟩ : Carried))
  have hunreach : (L.map (fun sl => (([⟨f, some (some nh), sl.map (decE v6 ap)⟩] : List Carried), ([] : List Carried)))).flatMap (·.2)
      = [] :=
    flatMap_snd_empty L (fun sl => (⟨f, some (some nh), sl.map (decE v6 ap)⟩ : Carried))
  rw [hreach, hunreach]
  have hents : (L.map (fun sl => (⟨f, some (some nh), sl.map (decE v6 ap)⟩ : Carried))).flatMap (·.ents)
      = es.map (decE v6 ap) := by
    rw [List.flatMap_map]
    simp only []
    rw [flatMap_map_flatten, hL]
  have hfam : (L.map (fun sl => (⟨f, some (some nh), sl.map (decE v6 ap)⟩ : Carried))).any (fun c => decide (c.fam ≠ f)) = false := by
    rw [List.any_eq_false]
    intro c hc
    obtain ⟨sl, _, rfl⟩ := List.mem_map.mp hc
    simp
  have hnh : (L.map (fun sl => (⟨f, some (some nh), sl.map (decE v6 ap)⟩ : Carried))).any (fun c => decide (c.nh ≠ some (some nh))) = false := by
    rw [List.any_eq_false]
    intro c hc
    obtain ⟨sl, _, rfl⟩ := List.mem_map.mp hc
    simp
  simp only [List.any_nil, Bool.false_eq_true, if_false, hfam, hents, compareEntries_ok v6 ap es hes hp, hnh]
  have hfs : firstSome (L.map (fun sl => qReach legacy f nh fin (sl.map (decE v6 ap))))
      (attrsVerdict (sortAttrs (attrs.map canonAttr))) = none := by
    apply firstSome_none
    intro x hx
    obtain ⟨sl, _, rfl⟩ := List.mem_map.mp hx
    exact attrsVerdict_qReach legacy f nh fin _ _ hfin
  rw [hfs]
  rfl

theorem checkUpdate_unreach_ok (i : Input) (f : Fam) (es : List Entry)
    (legacy v6 ap : Bool) (L : List (List Entry))
    (hL : L.flatten = es) (hes : ∀ e ∈ es, IpEntryOk v6 e) (hp : ap = false → ∀ e ∈ es, e.pid = 0) :
    checkUpdate i f false none [] es
      (L.map (fun sl => qUnreach legacy f (sl.map (decE v6 ap)))) = none := by
  unfold checkUpdate
  have hany : (L.map (fun sl => qUnreach legacy f (sl.map (decE v6 ap)))).any (notRouteUpd es.isEmpty) = false := by
    rw [List.any_eq_false]
    intro x hx
    obtain ⟨sl, _, rfl⟩ := List.mem_map.mp hx
    cases legacy <;> simp [qUnreach, notRouteUpd]
  have hsec : (L.map (fun sl => qUnreach legacy f (sl.map (decE v6 ap)))).map carried
      = L.map (fun sl => (([] : List Carried), ([⟨f, none, sl.map (decE v6 ap)⟩] : List Carried))) := by
    rw [List.map_map]
    apply List.map_congr_left
    intro sl _
    exact carried_qUnreach legacy f _
  simp only [hany, Bool.false_eq_true, if_false, hsec]
  have hunreach : (L.map (fun sl => (([] : List Carried), ([⟨f, none, sl.map (decE v6 ap)⟩] : List Carried)))).flatMap (·.2)
      = L.map (fun sl => (⟨f, none, sl.map (decE v6 ap)⟩ : Carried)) :=
    flatMap_snd_single L (fun sl => (⟨f, none, sl.map (decE v6 ap)⟩ : Carried))
  have hreach : (L.map (fun sl => (([] : List Carried), ([⟨f, none, sl.map (decE v6 ap)⟩] : List Carried)))).flatMap (·.1)
      = [] :=
    flatMap_fst_empty L (fun sl => (⟨f, none, sl.map (decE v6 ap)⟩ : Carried))
  rw [hreach, hunreach]
  have hents : (L.map (fun sl => (⟨f, none, sl.map (decE v6 ap)⟩ : Carried))).flatMap (·.ents)
      = es.map (decE v6 ap) := by
    rw [List.flatMap_map]
    simp only []
    rw [flatMap_map_flatten, hL]
  have hfam : (L.map (fun sl => (⟨f, none, sl.map (decE v6 ap)⟩ : Carried))).any (fun c => decide (c.fam ≠ f)) = false := by
    rw [List.any_eq_false]
    intro c hc
    obtain ⟨sl, _, rfl⟩ := List.mem_map.mp hc
    simp
  simp only [List.any_nil, Bool.false_eq_true, if_false, hfam, hents, compareEntries_ok v6 ap es hes hp]
  have herrs : (L.map (fun sl => qUnreach legacy f (sl.map (decE v6 ap)))).any updHasErrs = false := by
    rw [List.any_eq_false]
    intro x hx
    obtain ⟨sl, _, rfl⟩ := List.mem_map.mp hx
    cases legacy <;> simp [qUnreach, updHasErrs]
  have hgot : (L.map (fun sl => qUnreach legacy f (sl.map (decE v6 ap)))).any updHasAttrs = false := by
    rw [List.any_eq_false]
    intro x hx
    obtain ⟨sl, _, rfl⟩ := List.mem_map.mp hx
    cases legacy <;> simp [qUnreach, updHasAttrs]
  simp only [herrs, hgot, Bool.false_eq_true, if_false]

end Rbgp.Enc
