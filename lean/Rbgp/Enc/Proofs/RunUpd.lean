/-
  Rbgp.Enc.Proofs.RunUpd — one model run on an UPDATE of a frame family, and the checker's verdict on it.
-/
import Rbgp.Enc.Proofs.FamsFp
namespace Rbgp.Enc
open Rbgp.Enc.Spec

theorem chunksG_length {α β : Type} (G : List Entry → α) (G' : List Entry → β) (N : List Entry → Nat) (es : List Entry) :
    (chunksG G N es).length = (chunksG G' N es).length := by
  have h1 := chunksG_map G (fun _ => ()) N es
  have h2 := chunksG_map G' (fun _ => ()) N es
  have := congrArg List.length h1
  have := congrArg List.length h2
  simp only [List.length_map] at *
  omega

theorem chunksG_ne_nil {α : Type} (G : List Entry → α) (N : List Entry → Nat) (es : List Entry) (h : es ≠ []) :
    chunksG G N es ≠ [] := by
  cases es with
  | nil => exact absurd rfl h
  | cons e rest =>
      rw [chunksG]
      split <;> simp

theorem UpdFamFp.run_eq {p : Profile} {i : Input} {m : Msg} (U : UpdFamFp p i.loc i.rem m) (hm : i.msg = m)
    (es : List Entry) (hes : m.entries = es) (hne : es ≠ []) (hS : U.S es) :
    run p i = .obs (chunksG U.body U.N es).length ((chunksG U.body U.N es).flatMap (frame 2))
      ((chunksG U.Q U.N es).map DRes.msg) .t := by
  unfold run
  rw [hm, U.toUpdFam.roundTrip_eq es hes hne hS]
  simp only
  have hdec : chunksG (fun r => DRes.msg (U.Q r)) U.N es = (chunksG U.Q U.N es).map DRes.msg :=
    (chunksG_map U.Q DRes.msg U.N es).symm
  have hclean : (chunksG (fun r => DRes.msg (U.Q r)) U.N es).all DRes.clean = true := by
    rw [List.all_eq_true]
    exact chunksG_forall _ U.N U.S U.hdrop (fun x => DRes.clean x = true) (fun r hr hs => U.hclean r hr hs) es hS
  rw [hes]
  simp only [hclean, if_true, U.fixedPoint_ok es hS]
  congr 1
  · exact chunksG_length _ _ _ _
  · rw [List.flatMap_def, List.flatMap_def,
        chunksG_map (fun r => (frame 2 (U.body r), U.N r)) (fun x : Bytes × Nat => x.1) U.N es,
        chunksG_map U.body (frame 2) U.N es]

/-- The reference checker accepts the run of an UPDATE frame family, given the two content facts that depend on
    the message kind. -/
theorem UpdFamFp.check_ok {p : Profile} {i : Input} {m : Msg} (U : UpdFamFp p i.loc i.rem m) (hm : i.msg = m)
    (es : List Entry) (hes : m.entries = es) (hne : es ≠ []) (hS : U.S es)
    (hb : buildable i = true) (henc : encodable i = true)
    (hmaxF : (negotiate i.rem i.loc).maxLen = maxFrame i)
    (hty : expectedType i.msg = 2)
    (hopq : ∀ frames, opaqueClause i frames = none)
    (hcontent : ∀ frames, contentClause i frames (chunksG U.Q U.N es) = none) :
    check i (run p i) = .ok ∧ ∃ n s dec, run p i = .obs n s dec .t := by
  refine ⟨?_, _, _, _, U.run_eq hm es hes hne hS⟩
  rw [U.run_eq hm es hes hne hS]
  unfold check checkClause
  simp only [hb, Bool.not_true, Bool.false_eq_true, if_false, henc, if_true, checkClause0]
  have hsizes : ∀ b ∈ chunksG U.body U.N es, 19 + b.length ≤ maxFrame i ∧ 19 + b.length < 65536 ∧
      frameLengths (frame 2 b) = none := by
    apply chunksG_forall U.body U.N U.S U.hdrop
      (fun b => 19 + b.length ≤ maxFrame i ∧ 19 + b.length < 65536 ∧ frameLengths (frame 2 b) = none) _ es hS
    intro r hr hs
    obtain ⟨h1, h2⟩ := U.hsize r hr hs
    exact ⟨by rw [← hmaxF]; exact h1, h2, U.hstruct r hr hs⟩
  have hframe := frameClause_ok i 2 (chunksG U.body U.N es) hty (chunksG_ne_nil _ _ _ hne)
    (fun b hb => (hsizes b hb).1) (fun b hb => (hsizes b hb).2.1) (fun b hb => (hsizes b hb).2.2)
  have hsplit := splitFrames_bodies 2 (chunksG U.body U.N es) (fun b hb => (hsizes b hb).2.1)
  rw [hframe, hsplit]
  simp only [orElse', hopq, filterMap_isMsg]
  rw [decodeClause_ok _ _ (by rw [List.length_map]; exact chunksG_length _ _ _ _)]
  simp only [hcontent, fpClause]

end Rbgp.Enc
