/-
  Rbgp.Enc.Proofs.AsPath — RFC 6793 on the wire: 2-byte downgrade, AS4_PATH synthesis, up-conversion and
  reconciliation at the receiver give back the original AS_PATH — under the exact condition stated.
-/
import Rbgp.Enc.Proofs.Bytes
namespace Rbgp.Enc

theorem beW_length (w : Nat) (a : Nat) (hw : w = 2 ∨ w = 4) : (beW w a).length = w := by
  rcases hw with rfl | rfl <;> simp [beW]

theorem beNat_beW (w : Nat) (a : Nat) (hw : w = 2 ∨ w = 4) (h : a < 256 ^ w) : beNat (beW w a) = a := by
  rcases hw with rfl | rfl
  · simp only [beW, if_true]; exact beNat_be16 (by simpa using h)
  · simp only [beW, show ¬ ((4 : Nat) = 2) by decide, if_false]; exact beNat_be32 (by simpa using h)

theorem chunk_flatMap (w : Nat) (hw : w = 2 ∨ w = 4) (as : List Nat) (rest : Bytes) (h : ∀ a ∈ as, a < 256 ^ w) :
    chunk w as.length (as.flatMap (beW w) ++ rest) = as := by
  induction as with
  | nil => rfl
  | cons a as ih =>
      simp only [List.length_cons, chunk, List.flatMap_cons, List.append_assoc]
      rw [List.take_left' (beW_length w a hw), List.drop_left' (beW_length w a hw),
          beNat_beW w a hw (h a (by simp)), ih (fun x hx => h x (by simp [hx]))]

theorem flatMap_beW_length (w : Nat) (hw : w = 2 ∨ w = 4) (as : List Nat) : (as.flatMap (beW w)).length = w * as.length := by
  induction as with
  | nil => simp
  | cons a as ih =>
      rw [List.flatMap_cons, List.length_append, beW_length w a hw, ih, List.length_cons]
      rw [Nat.mul_add]; omega

/-- segments whose counts fit one octet and whose AS numbers fit `w` octets -/
def SegsOk (w : Nat) (segs : List Seg) : Prop := ∀ s ∈ segs, s.2.length < 256 ∧ ∀ a ∈ s.2, a < 256 ^ w

theorem parseSegs_enc (w : Nat) (hw : w = 2 ∨ w = 4) (segs : List Seg) (h : SegsOk w segs) :
    parseSegs w (encSegs w segs) = some segs := by
  induction segs with
  | nil => simp [encSegs, parseSegs]
  | cons s rest ih =>
      obtain ⟨hl, ha⟩ := h s (by simp)
      have e : encSegs w (s :: rest) = s.1 :: s.2.length :: (s.2.flatMap (beW w) ++ encSegs w rest) := by
        simp [encSegs, Nat.mod_eq_of_lt hl]
      rw [e, parseSegs]
      have hlen : ¬ (s.2.flatMap (beW w) ++ encSegs w rest).length < w * s.2.length := by
        rw [List.length_append, flatMap_beW_length w hw]; omega
      simp only [hlen, if_false]
      have hd : List.drop (w * s.2.length) (s.2.flatMap (beW w) ++ encSegs w rest) = encSegs w rest :=
        List.drop_left' (flatMap_beW_length w hw s.2)
      rw [hd, ih (fun x hx => h x (by simp [hx])), chunk_flatMap w hw s.2 _ ha]

/-- the downgrade map on one AS number -/
def down1 (a : Nat) : Nat := if a > 65535 then TRANS_ASN else a
def downSegs (segs : List Seg) : List Seg := segs.map (fun s => (s.1, s.2.map down1))

theorem downSegs_ok (segs : List Seg) (h : SegsOk 4 segs) : SegsOk 2 (downSegs segs) := by
  intro s hs
  obtain ⟨t, ht, rfl⟩ := List.mem_map.mp hs
  obtain ⟨hl, _⟩ := h t ht
  refine ⟨by simpa using hl, ?_⟩
  intro a ha
  obtain ⟨b, _, rfl⟩ := List.mem_map.mp ha
  unfold down1; split
  · simp [TRANS_ASN]
  · have : (256 : Nat) ^ 2 = 65536 := by decide
    omega

theorem downSegs_ok4 (segs : List Seg) (h : SegsOk 4 segs) : SegsOk 4 (downSegs segs) := by
  intro s hs
  obtain ⟨hl, ha⟩ := downSegs_ok segs h s hs
  refine ⟨hl, fun a haa => ?_⟩
  have := ha a haa
  have e2 : (256 : Nat) ^ 2 = 65536 := by decide
  have e4 : (256 : Nat) ^ 4 = 4294967296 := by decide
  omega

theorem asPathDowngrade_enc (segs : List Seg) (h : SegsOk 4 segs) :
    asPathDowngrade (encSegs 4 segs) = .ok (encSegs 2 (downSegs segs)) := by
  simp only [asPathDowngrade, parseSegs_enc 4 (Or.inr rfl) segs h, downSegs]
  rfl

def hasWideSegs (segs : List Seg) : Bool := segs.any (fun s => s.2.any (fun a => a > 65535))
def noConfed (segs : List Seg) : Bool := segs.all (fun s => s.1 ≠ 3 ∧ s.1 ≠ 4)

theorem downSegs_id (segs : List Seg) (h : hasWideSegs segs = false) : downSegs segs = segs := by
  induction segs with
  | nil => rfl
  | cons s rest ih =>
      simp only [hasWideSegs, List.any_cons, Bool.or_eq_false_iff] at h
      obtain ⟨h1, h2⟩ := h
      simp only [downSegs, List.map_cons]
      have : s.2.map down1 = s.2 := by
        rw [List.any_eq_false] at h1
        have hh : ∀ a ∈ s.2, down1 a = a := by
          intro a ha; have := h1 a ha; simp at this; simp [down1]; omega
        exact (List.map_congr_left hh).trans (List.map_id _)
      rw [this]
      have ih' := ih (by simpa [hasWideSegs] using h2)
      simp only [downSegs] at ih'
      rw [ih']

theorem countHops_fold (segs : List Seg) (n : Nat) :
    segs.foldl (fun n s => if s.1 = 1 then n + 1 else if s.1 = 2 then n + s.2.length else n) n =
      n + segs.foldl (fun n s => if s.1 = 1 then n + 1 else if s.1 = 2 then n + s.2.length else n) 0 := by
  induction segs generalizing n with
  | nil => simp
  | cons s rest ih =>
      simp only [List.foldl_cons]
      rw [ih, ih (if s.1 = 1 then 0 + 1 else if s.1 = 2 then 0 + s.2.length else 0)]
      split <;> (try split) <;> omega

theorem countHops_down (segs : List Seg) : countHops (downSegs segs) = countHops segs := by
  induction segs with
  | nil => rfl
  | cons s rest ih =>
      simp only [countHops, downSegs, List.map_cons, List.foldl_cons, List.length_map] at ih ⊢
      rw [countHops_fold, countHops_fold (rest) (if s.1 = 1 then 0 + 1 else if s.1 = 2 then 0 + s.2.length else 0)]
      rw [ih]

theorem filter_noConfed (segs : List Seg) (h : noConfed segs = true) :
    segs.filter (fun s => s.1 ≠ 3 ∧ s.1 ≠ 4) = segs := by
  rw [List.filter_eq_self]
  intro s hs
  exact List.all_eq_true.mp h s hs

/-- confederation segment (AS_CONFED_SEQUENCE / AS_CONFED_SET) -/
def isConfedSeg (s : Seg) : Bool := s.1 == 3 || s.1 == 4

/-- what RFC 6793 can carry to a 2-byte-AS peer: the confederation segments lead the path (RFC 5065) and hold no
    AS number above 65535 (AS4_PATH never carries confederation segments) -/
def confedLeading (segs : List Seg) : Bool :=
  (segs.dropWhile isConfedSeg).all (fun s => !isConfedSeg s) && !hasWideSegs (segs.takeWhile isConfedSeg)

/-- with no hop left to take, `as_path_take_prefix` returns the leading confederation segments -/
theorem takePrefix_zero (segs : List Seg) : takePrefix segs 0 = segs.takeWhile isConfedSeg := by
  induction segs with
  | nil => rfl
  | cons s rest ih =>
      by_cases hc : isConfedSeg s = true
      · have hc' : s.1 = 3 ∨ s.1 = 4 := by simpa [isConfedSeg] using hc
        have h2 : ¬ s.1 = 2 := by omega
        have h1 : ¬ s.1 = 1 := by omega
        simp only [takePrefix, true_and, hc', not_true_eq_false, if_false, h2, h1, List.takeWhile_cons, hc, if_true, ih]
      · have hc' : ¬ (s.1 = 3 ∨ s.1 = 4) := by simpa [isConfedSeg] using hc
        have hcf : isConfedSeg s = false := by simpa using hc
        simp only [takePrefix, true_and, hc', not_false_eq_true, if_true, List.takeWhile_cons, hcf]
        rfl

theorem takeWhile_down (segs : List Seg) :
    (downSegs segs).takeWhile isConfedSeg = downSegs (segs.takeWhile isConfedSeg) := by
  induction segs with
  | nil => rfl
  | cons s rest ih =>
      have e : isConfedSeg (s.1, s.2.map down1) = isConfedSeg s := rfl
      simp only [downSegs, List.map_cons, List.takeWhile_cons, e] at ih ⊢
      split
      · simp only [List.map_cons, ih]
      · rfl

theorem filter_confedLeading (segs : List Seg) (h : (segs.dropWhile isConfedSeg).all (fun s => !isConfedSeg s) = true) :
    segs.filter (fun s => s.1 ≠ 3 ∧ s.1 ≠ 4) = segs.dropWhile isConfedSeg := by
  induction segs with
  | nil => rfl
  | cons s rest ih =>
      by_cases hc : isConfedSeg s = true
      · have hc' : s.1 = 3 ∨ s.1 = 4 := by simpa [isConfedSeg] using hc
        have hp : decide (s.1 ≠ 3 ∧ s.1 ≠ 4) = false := by simp; omega
        simp only [List.dropWhile_cons, hc, if_true] at h ⊢
        rw [List.filter_cons, hp]
        exact ih h
      · have hcf : isConfedSeg s = false := by simpa using hc
        simp only [List.dropWhile_cons, hcf, Bool.false_eq_true, if_false] at h ⊢
        rw [List.filter_eq_self]
        intro x hx
        have := List.all_eq_true.mp h x hx
        simp only [isConfedSeg, Bool.not_eq_true', Bool.or_eq_false_iff, beq_eq_false_iff_ne, ne_eq] at this
        simp [this.1, this.2]

theorem mem_of_mem_dropWhile' {α : Type} (q : α → Bool) (l : List α) (x : α) (h : x ∈ l.dropWhile q) : x ∈ l := by
  induction l with
  | nil => simp at h
  | cons a l ih =>
      rw [List.dropWhile_cons] at h
      split at h
      · exact List.mem_cons_of_mem _ (ih h)
      · exact h

theorem of_mem_takeWhile' {α : Type} (q : α → Bool) (l : List α) (x : α) (h : x ∈ l.takeWhile q) : q x = true := by
  induction l with
  | nil => simp at h
  | cons a l ih =>
      rw [List.takeWhile_cons] at h
      split at h
      · rcases List.mem_cons.mp h with rfl | h'
        · assumption
        · exact ih h'
      · simp at h

theorem encSegs_append (w : Nat) (a b : List Seg) : encSegs w (a ++ b) = encSegs w a ++ encSegs w b := by
  simp [encSegs]

/-- **AS4 round trip** (the exact condition): for a canonical 4-octet AS_PATH `b = encSegs 4 segs`, what a
    2-byte-AS peer reconstructs from the downgraded AS_PATH and the AS4_PATH is `b` again, provided the path has
    no AS number above 65535, or its confederation segments lead the path and hold no such number. -/
theorem as4_roundtrip (segs : List Seg) (hok : SegsOk 4 segs)
    (hcond : hasWideSegs segs = true → confedLeading segs = true) :
    let b := encSegs 4 segs
    ∃ d, asPathDowngrade b = .ok d ∧
      ∃ up, parseSegs 2 d = some up ∧
        (if asPathHasWide b then asPathReconcile (encSegs 4 up) (asPathStripConfed b) else encSegs 4 up) = b := by
  intro b
  refine ⟨_, asPathDowngrade_enc segs hok, downSegs segs, parseSegs_enc 2 (Or.inl rfl) _ (downSegs_ok segs hok), ?_⟩
  have hw : asPathHasWide b = hasWideSegs segs := by
    simp only [asPathHasWide, b, parseSegs_enc 4 (Or.inr rfl) segs hok, hasWideSegs]
  rw [hw]
  by_cases hwide : hasWideSegs segs = true
  · have hcl := hcond hwide
    simp only [confedLeading, Bool.and_eq_true, Bool.not_eq_true'] at hcl
    obtain ⟨hlead, hnarrow⟩ := hcl
    simp only [hwide, if_true]
    have hstrip : asPathStripConfed b = encSegs 4 (segs.dropWhile isConfedSeg) := by
      simp only [asPathStripConfed, b, parseSegs_enc 4 (Or.inr rfl) segs hok, filter_confedLeading segs hlead]
    have hokd : SegsOk 4 (segs.dropWhile isConfedSeg) := fun s hs => hok s (mem_of_mem_dropWhile' _ _ _ hs)
    rw [hstrip]
    simp only [asPathReconcile, parseSegs_enc 4 (Or.inr rfl) _ (downSegs_ok4 segs hok),
      parseSegs_enc 4 (Or.inr rfl) _ hokd]
    have hcnt : countHops (segs.dropWhile isConfedSeg) = countHops segs := by
      have hsplit : segs = segs.takeWhile isConfedSeg ++ segs.dropWhile isConfedSeg := (List.takeWhile_append_dropWhile).symm
      have hzero : ∀ l : List Seg, (∀ s ∈ l, isConfedSeg s = true) → ∀ r, countHops (l ++ r) = countHops r := by
        intro l hl r
        induction l with
        | nil => rfl
        | cons x xs ih =>
            have hx : x.1 = 3 ∨ x.1 = 4 := by simpa [isConfedSeg] using hl x (by simp)
            have h1 : ¬ x.1 = 1 := by omega
            have h2 : ¬ x.1 = 2 := by omega
            have := ih (fun s hs => hl s (by simp [hs]))
            simp only [countHops, List.cons_append, List.foldl_cons, h1, h2, if_false] at this ⊢
            exact this
      conv => rhs; rw [hsplit]
      exact (hzero _ (fun s hs => of_mem_takeWhile' _ _ _ hs) _).symm
    rw [countHops_down, hcnt]
    simp only [Nat.lt_irrefl, if_false, Nat.sub_self, takePrefix_zero, takeWhile_down, downSegs_id _ hnarrow]
    rw [← encSegs_append, List.takeWhile_append_dropWhile]
  · have hwf : hasWideSegs segs = false := by simpa using hwide
    simp only [hwf, Bool.false_eq_true, if_false, downSegs_id segs hwf, b]

end Rbgp.Enc
