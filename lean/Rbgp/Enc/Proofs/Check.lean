/-
  Rbgp.Enc.Proofs.Check — the reference checker accepts an observation made of well-formed UPDATE frames
  whose decoded entries / attributes are the expected ones (clause by clause).
-/
import Rbgp.Enc.Proofs.Fams
namespace Rbgp.Enc
open Rbgp.Enc.Spec

theorem firstSome_none {α} (l : List α) (f : α → Option String) (h : ∀ x ∈ l, f x = none) :
    firstSome l f = none := by
  induction l with
  | nil => rfl
  | cons x xs ih =>
      simp only [firstSome, h x (by simp)]
      exact ih (fun y hy => h y (by simp [hy]))

theorem markerOk_frame (ty : Nat) (body : Bytes) : markerOk (frame ty body) = true := by
  simp [markerOk, frame_marker]

theorem splitFrames_bodies (ty : Nat) (bodies : List Bytes) (hlt : ∀ b ∈ bodies, 19 + b.length < 65536) :
    splitFrames (bodies.flatMap (frame ty)) = (bodies.map (frame ty), []) := by
  induction bodies with
  | nil => simp [splitFrames_nil]
  | cons b bs ih =>
      rw [List.flatMap_cons, splitFrames_frame ty b _ (hlt b (by simp)), ih (fun y hy => hlt y (by simp [hy]))]
      simp

/-- framing clause on a stream of frames of one type -/
theorem frameClause_ok (i : Input) (ty : Nat) (bodies : List Bytes)
    (hty : expectedType i.msg = ty)
    (hne : bodies ≠ [])
    (hmax : ∀ b ∈ bodies, 19 + b.length ≤ maxFrame i)
    (hlt : ∀ b ∈ bodies, 19 + b.length < 65536)
    (hstruct : ∀ b ∈ bodies, frameLengths (frame ty b) = none) :
    frameClause i bodies.length (bodies.flatMap (frame ty)) = none := by
  unfold frameClause
  rw [splitFrames_bodies ty bodies hlt]
  have hne' : (bodies.map (frame ty)).isEmpty = false := by
    cases bodies with
    | nil => exact absurd rfl hne
    | cons _ _ => rfl
  have hmark : (bodies.map (frame ty)).all markerOk = true := by
    simp [List.all_eq_true, markerOk_frame]
  have hsz : (bodies.map (frame ty)).any (fun fr => decide (fr.length > maxFrame i)) = false := by
    rw [List.any_eq_false]
    intro x hx
    obtain ⟨b, hb, rfl⟩ := List.mem_map.mp hx
    have := hmax b hb
    simp; omega
  have htyp : (bodies.map (frame ty)).any (fun fr => decide (beNat ((fr.drop 18).take 1) ≠ expectedType i.msg)) = false := by
    rw [List.any_eq_false]
    intro x hx
    obtain ⟨b, hb, rfl⟩ := List.mem_map.mp hx
    simp [frame_type, hty]
  have hfl : firstSome (bodies.map (frame ty)) frameLengths = none := by
    apply firstSome_none
    intro x hx
    obtain ⟨b, hb, rfl⟩ := List.mem_map.mp hx
    exact hstruct b hb
  simp only [List.isEmpty_nil, Bool.not_true, Bool.false_eq_true, if_false, List.length_map, ne_eq,
    not_true_eq_false, hne', hmark, hsz, htyp, hfl]

theorem filterMap_isMsg (qs : List Parsed) : (qs.map DRes.msg).filterMap isMsg = qs := by
  induction qs with
  | nil => rfl
  | cons q qs ih =>
      rw [List.map_cons, List.filterMap_cons]
      simp only [isMsg]
      rw [ih]

theorem decodeClause_ok (qs : List Parsed) (n : Nat) (h : qs.length = n) :
    decodeClause (qs.map DRes.msg) n = none := by
  unfold decodeClause
  have hf : (qs.map DRes.msg).find? (fun d => (isMsg d).isNone) = none := by
    rw [List.find?_eq_none]
    intro x hx
    obtain ⟨q, _, rfl⟩ := List.mem_map.mp hx
    simp [isMsg]
  rw [hf, filterMap_isMsg]
  simp [h]

/-- entries of the model families never trigger the byte-level partition clause -/
theorem opaqueRegion_ip (v6 ap : Bool) (es : List Entry) (h : ∀ e ∈ es, IpEntryOk v6 e) :
    opaqueRegion ap es = none := by
  unfold opaqueRegion
  cases es with
  | nil => simp
  | cons e es' =>
      obtain ⟨addr, mask, hn, _⟩ := h e (by simp)
      simp [hn]

end Rbgp.Enc
