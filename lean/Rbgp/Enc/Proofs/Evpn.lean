/-
  Rbgp.Enc.Proofs.Evpn — EVPN NLRI, route types 1 - 5 (RFC 7432 §7.1 - §7.4, RFC 9136 §3.1; `evpn.rs`):
  decode ∘ encode = id on well-formed routes.
-/
import Rbgp.Enc.Proofs.Labels
namespace Rbgp.Enc

theorem takeN_append (a rest : Bytes) (n : Nat) (h : a.length = n) : takeN n (a ++ rest) = some (a, rest) := by
  subst h
  simp [takeN]

theorem takeN_self (a : Bytes) (n : Nat) (h : a.length = n) : takeN n a = some (a, []) := by
  have := takeN_append a [] n h
  simpa using this

theorem takeN_one (x : Nat) (rest : Bytes) : takeN 1 (x :: rest) = some ([x], rest) := by simp [takeN]

@[simp] theorem evpnLabel_length (l : Nat) : (evpnLabel l).length = 3 := rfl

theorem beNat_evpnLabel {l : Nat} (h : l < 16777216) : beNat (evpnLabel l) = l := by
  simp [beNat, evpnLabel]; omega

theorem readEvpnIp_bytes (zero : Bool) (ip rest : Bytes)
    (h : ip.length = 4 ∨ ip.length = 16 ∨ (zero = true ∧ ip.length = 0)) :
    readEvpnIp zero (evpnIp ip ++ rest) = some (ip, rest) := by
  rcases h with h | h | ⟨hz, h⟩
  · simp [evpnIp, readEvpnIp, h, takeN_append ip rest 4 h]
  · simp [evpnIp, readEvpnIp, h, takeN_append ip rest 16 h]
  · have : ip = [] := List.eq_nil_of_length_eq_zero h
    subst this
    simp [evpnIp, readEvpnIp, hz]

/-- a route the codec can carry: the fields within their wire widths -/
def EvpnR.Wf : EvpnR → Prop
  | .ead rd esi etag label => RdOk rd ∧ esi.length = 10 ∧ etag < 4294967296 ∧ label < 16777216
  | .macip rd esi etag mac ip l1 l2 =>
      RdOk rd ∧ esi.length = 10 ∧ etag < 4294967296 ∧ mac.length = 6 ∧ (ip.length = 0 ∨ ip.length = 4 ∨ ip.length = 16) ∧
        l1 < 16777216 ∧ (∀ l, l2 = some l → l < 16777216)
  | .imet rd etag ip => RdOk rd ∧ etag < 4294967296 ∧ (ip.length = 4 ∨ ip.length = 16)
  | .es rd esi ip => RdOk rd ∧ esi.length = 10 ∧ (ip.length = 4 ∨ ip.length = 16)
  | .pfx rd esi etag plen ip gw label =>
      RdOk rd ∧ esi.length = 10 ∧ etag < 4294967296 ∧ plen < 256 ∧ (ip.length = 4 ∨ ip.length = 16) ∧ gw.length = ip.length ∧
        label < 16777216

theorem evpn_ead_roundtrip (rd : Rd) (esi : Bytes) (etag label : Nat) (h : (EvpnR.ead rd esi etag label).Wf) :
    evpnDecode ((EvpnR.ead rd esi etag label).ty :: ((EvpnR.ead rd esi etag label).body.length % 256) ::
      (EvpnR.ead rd esi etag label).body) = some (.evpn (.ead rd esi etag label)) := by
  obtain ⟨h1, h2, h3, h4⟩ := h
  have hl : (EvpnR.ead rd esi etag label).body.length = 25 := by
    simp [EvpnR.body, rd_bytes_length, h2]
  rw [hl]
  simp only [EvpnR.ty, EvpnR.body, List.append_assoc, evpnDecode]
  simp [takeN_append _ _ 8 (rd_bytes_length rd), readRd_bytes rd h1, takeN_append esi _ 10 h2,
    takeN_append (be32 etag) _ 4 rfl, takeN_self (evpnLabel label) 3 rfl, beNat_be32 h3, beNat_evpnLabel h4]

theorem evpn_macip_roundtrip (rd : Rd) (esi : Bytes) (etag : Nat) (mac ip : Bytes) (l1 : Nat) (l2 : Option Nat)
    (h : (EvpnR.macip rd esi etag mac ip l1 l2).Wf) :
    evpnDecode ((EvpnR.macip rd esi etag mac ip l1 l2).ty :: ((EvpnR.macip rd esi etag mac ip l1 l2).body.length % 256) ::
      (EvpnR.macip rd esi etag mac ip l1 l2).body) = some (.evpn (.macip rd esi etag mac ip l1 l2)) := by
  obtain ⟨h1, h2, h3, h4, h5, h6, h7⟩ := h
  have hip : readEvpnIp true (evpnIp ip ++ (evpnLabel l1 ++ (match l2 with | some l => evpnLabel l | none => []))) =
      some (ip, evpnLabel l1 ++ (match l2 with | some l => evpnLabel l | none => [])) :=
    readEvpnIp_bytes true ip _ (by
      rcases h5 with h | h | h
      · exact Or.inr (Or.inr ⟨rfl, h⟩)
      · exact Or.inl h
      · exact Or.inr (Or.inl h))
  cases l2 with
  | none =>
      have hl : (EvpnR.macip rd esi etag mac ip l1 none).body.length = 33 + ip.length := by
        simp only [EvpnR.body, List.length_append, rd_bytes_length, be32_length, evpnLabel_length, h2, h4, evpnIp,
          List.length_cons, List.length_nil]; omega
      rw [hl, Nat.mod_eq_of_lt (show 33 + ip.length < 256 by omega)]
      simp only [EvpnR.ty, EvpnR.body, List.append_assoc, evpnDecode, List.append_nil] at hip ⊢
      simp [takeN_append _ _ 8 (rd_bytes_length rd), readRd_bytes rd h1, takeN_append esi _ 10 h2,
        takeN_append (be32 etag) _ 4 rfl, takeN_one, takeN_append mac _ 6 h4, hip,
        takeN_self (evpnLabel l1) 3 rfl, beNat_be32 h3, beNat_evpnLabel h6]
  | some l =>
      have hl2 := h7 l rfl
      have hl : (EvpnR.macip rd esi etag mac ip l1 (some l)).body.length = 33 + ip.length + 3 := by
        simp only [EvpnR.body, List.length_append, rd_bytes_length, be32_length, evpnLabel_length, h2, h4, evpnIp,
          List.length_cons, List.length_nil]; omega
      rw [hl, Nat.mod_eq_of_lt (show 33 + ip.length + 3 < 256 by omega)]
      simp only [EvpnR.ty, EvpnR.body, List.append_assoc, evpnDecode] at hip ⊢
      simp [takeN_append _ _ 8 (rd_bytes_length rd), readRd_bytes rd h1, takeN_append esi _ 10 h2,
        takeN_append (be32 etag) _ 4 rfl, takeN_one, takeN_append mac _ 6 h4, hip,
        takeN_append (evpnLabel l1) _ 3 rfl, takeN_self (evpnLabel l) 3 rfl, beNat_be32 h3, beNat_evpnLabel h6,
        beNat_evpnLabel hl2]
      omega

theorem evpn_imet_roundtrip (rd : Rd) (etag : Nat) (ip : Bytes) (h : (EvpnR.imet rd etag ip).Wf) :
    evpnDecode ((EvpnR.imet rd etag ip).ty :: ((EvpnR.imet rd etag ip).body.length % 256) ::
      (EvpnR.imet rd etag ip).body) = some (.evpn (.imet rd etag ip)) := by
  obtain ⟨h1, h3, h5⟩ := h
  have hip : readEvpnIp false (evpnIp ip) = some (ip, []) := by
    have := readEvpnIp_bytes false ip [] (by rcases h5 with h | h; exact Or.inl h; exact Or.inr (Or.inl h))
    simpa using this
  have hl : (EvpnR.imet rd etag ip).body.length = 13 + ip.length := by
    simp [EvpnR.body, rd_bytes_length, evpnIp]; omega
  rw [hl, Nat.mod_eq_of_lt (show 13 + ip.length < 256 by omega)]
  simp only [EvpnR.ty, EvpnR.body, List.append_assoc, evpnDecode]
  have hlt : ¬ (13 + ip.length < 17) := by omega
  simp [takeN_append _ _ 8 (rd_bytes_length rd), readRd_bytes rd h1, takeN_append (be32 etag) _ 4 rfl, hip,
    beNat_be32 h3, hlt]

theorem evpn_es_roundtrip (rd : Rd) (esi ip : Bytes) (h : (EvpnR.es rd esi ip).Wf) :
    evpnDecode ((EvpnR.es rd esi ip).ty :: ((EvpnR.es rd esi ip).body.length % 256) ::
      (EvpnR.es rd esi ip).body) = some (.evpn (.es rd esi ip)) := by
  obtain ⟨h1, h2, h5⟩ := h
  have hip : readEvpnIp false (evpnIp ip) = some (ip, []) := by
    have := readEvpnIp_bytes false ip [] (by rcases h5 with h | h; exact Or.inl h; exact Or.inr (Or.inl h))
    simpa using this
  have hl : (EvpnR.es rd esi ip).body.length = 19 + ip.length := by
    simp [EvpnR.body, rd_bytes_length, evpnIp, h2]; omega
  rw [hl, Nat.mod_eq_of_lt (show 19 + ip.length < 256 by omega)]
  simp only [EvpnR.ty, EvpnR.body, List.append_assoc, evpnDecode]
  have hlt : ¬ (19 + ip.length < 23) := by omega
  simp [takeN_append _ _ 8 (rd_bytes_length rd), readRd_bytes rd h1, takeN_append esi _ 10 h2, hip, hlt]

theorem evpn_pfx_roundtrip (rd : Rd) (esi : Bytes) (etag plen : Nat) (ip gw : Bytes) (label : Nat)
    (h : (EvpnR.pfx rd esi etag plen ip gw label).Wf) :
    evpnDecode ((EvpnR.pfx rd esi etag plen ip gw label).ty :: ((EvpnR.pfx rd esi etag plen ip gw label).body.length % 256) ::
      (EvpnR.pfx rd esi etag plen ip gw label).body) = some (.evpn (.pfx rd esi etag plen ip gw label)) := by
  obtain ⟨h1, h2, h3, h4, h5, h6, h7⟩ := h
  have hl : (EvpnR.pfx rd esi etag plen ip gw label).body.length = 26 + 2 * ip.length := by
    simp [EvpnR.body, rd_bytes_length, h2, h6]; omega
  rw [hl]
  simp only [EvpnR.ty, EvpnR.body, List.append_assoc, evpnDecode, if_pos h6]
  rcases h5 with h5 | h5
  · rw [h5] at h6 ⊢
    simp [takeN_append _ _ 8 (rd_bytes_length rd), readRd_bytes rd h1, takeN_append esi _ 10 h2,
      takeN_append (be32 etag) _ 4 rfl, takeN_one, takeN_append ip _ 4 h5, takeN_append gw _ 4 h6,
      takeN_self (evpnLabel label) 3 rfl, beNat_be32 h3, beNat_evpnLabel h7]
  · rw [h5] at h6 ⊢
    simp [takeN_append _ _ 8 (rd_bytes_length rd), readRd_bytes rd h1, takeN_append esi _ 10 h2,
      takeN_append (be32 etag) _ 4 rfl, takeN_one, takeN_append ip _ 16 h5, takeN_append gw _ 16 h6,
      takeN_self (evpnLabel label) 3 rfl, beNat_be32 h3, beNat_evpnLabel h7]

/-- **EVPN NLRI, route types 1 - 5: decode ∘ encode = id** -/
theorem evpn_nlri_roundtrip (r : EvpnR) (wd : Bool) (h : r.Wf) :
    ∃ bs, (NStruct.evpn r).encode wd = .ok bs ∧ evpnDecode bs = some (.evpn r) := by
  refine ⟨r.ty :: (r.body.length % 256) :: r.body, rfl, ?_⟩
  cases r with
  | ead rd esi etag label => exact evpn_ead_roundtrip rd esi etag label h
  | macip rd esi etag mac ip l1 l2 => exact evpn_macip_roundtrip rd esi etag mac ip l1 l2 h
  | imet rd etag ip => exact evpn_imet_roundtrip rd etag ip h
  | es rd esi ip => exact evpn_es_roundtrip rd esi ip h
  | pfx rd esi etag plen ip gw label => exact evpn_pfx_roundtrip rd esi etag plen ip gw label h

end Rbgp.Enc
