/-
  Rbgp.Enc.Proofs.Caps — `Capability::encode` / `Capability::decode` round trip (with the FQDN lower-casing)
  and the capability TLV walk of the OPEN arm.
-/
import Rbgp.Enc.Proofs.Small
namespace Rbgp.Enc
open Rbgp.Enc.Spec

/-- value bytes of a capability -/
def capValue : Cap → Bytes
  | .mp f => be16 f.afi ++ [0, f.safi]
  | .rr => []
  | .enh v => v.flatMap (fun fa => fa.1.u32 ++ be16 fa.2)
  | .em => []
  | .gr flags time fams => be16 (flags * 4096 + time) ++ fams.flatMap (fun ff => be16 ff.1.afi ++ [ff.1.safi, ff.2])
  | .as4 n => be32 n
  | .ap v => v.flatMap (fun fm => be16 fm.1.afi ++ [fm.1.safi, fm.2])
  | .err => []
  | .llgr v => v.flatMap (fun x => be16 x.1.afi ++ [x.1.safi, x.2.1, x.2.2 / 65536 % 256, x.2.2 / 256 % 256, x.2.2 % 256])
  | .fqdn h d => [h.length] ++ h.map lower ++ [d.length] ++ d.map lower
  | .unk _ bin => bin

def capBytes (c : Cap) : Bytes := [capCode c, (capValue c).length] ++ capValue c

theorem flatMap_length_const {α : Type} (l : List α) (g : α → Bytes) (n : Nat) (h : ∀ x ∈ l, (g x).length = n) :
    (l.flatMap g).length = l.length * n := by
  induction l with
  | nil => simp
  | cons x xs ih =>
      rw [List.flatMap_cons, List.length_append, h x (by simp), ih (fun y hy => h y (by simp [hy]))]
      simp [Nat.add_mul]; omega

/-! ### ASCII lower-casing keeps a string well-formed UTF-8 -/

/-- states the UTF-8 walker can be in: a continuation octet is never an ASCII letter -/
def U8Inv (s : U8St) : Prop := s.need = 0 ∨ 128 ≤ s.lo

theorem utf8Step_inv (s s' : U8St) (b : Nat) (h : utf8Step s b = some s') : U8Inv s' := by
  unfold utf8Step at h
  repeat' split at h
  all_goals (first | cases h | skip)
  all_goals (unfold U8Inv; simp)

theorem utf8Step_lower (s : U8St) (b : Nat) (hs : U8Inv s) : utf8Step s (lower b) = utf8Step s b := by
  unfold lower
  split
  · rename_i hb
    unfold utf8Step
    by_cases hn : s.need = 0
    · have h1 : b + 32 < 128 := by omega
      have h2 : b < 128 := by omega
      simp only [hn, if_true, h1, h2]
    · have hlo : 128 ≤ s.lo := by rcases hs with h | h; exact absurd h hn; exact h
      have c1 : ¬ (s.lo ≤ b + 32 ∧ b + 32 ≤ s.hi) := by omega
      have c2 : ¬ (s.lo ≤ b ∧ b ≤ s.hi) := by omega
      simp only [hn, if_false, c1, c2]
  · rfl

theorem utf8Run_lower (o : Option U8St) (b : Bytes) (ho : ∀ s, o = some s → U8Inv s) :
    utf8Run o (b.map lower) = utf8Run o b := by
  induction b generalizing o with
  | nil => cases o <;> rfl
  | cons x xs ih =>
      cases o with
      | none => rfl
      | some s =>
          simp only [List.map_cons, utf8Run]
          rw [utf8Step_lower s x (ho s rfl)]
          exact ih _ (fun s' hs' => utf8Step_inv s s' x hs')

theorem utf8Valid_lower (b : Bytes) : utf8Valid (b.map lower) = utf8Valid b := by
  unfold utf8Valid
  rw [utf8Run_lower _ b (by intro s hs; cases hs; exact Or.inl rfl)]

theorem lor_flags (flags time : Nat) (hf : flags < 16) (ht : time < 4096) :
    Nat.lor (flags * 4096 % 65536) time = flags * 4096 + time := by
  have h1 : flags * 4096 % 65536 = flags * 4096 := Nat.mod_eq_of_lt (by omega)
  rw [h1]
  have := Nat.shiftLeft_add_eq_or_of_lt (i := 12) (b := time) (by omega) flags
  rw [Nat.shiftLeft_eq] at this
  simp only [HOr.hOr, OrOp.or] at this
  have e : (2 : Nat) ^ 12 = 4096 := by decide
  rw [e] at this
  exact this.symm

theorem cap_encode (c : Cap) (h : capOk c = true) :
    c.encode = .ok (capBytes c, (capBytes c).length) := by
  -- it suffices to identify the bytes written and to bound their number by code + length + 255
  have fin : ∀ (b : Bytes), b = capBytes c → (capValue c).length ≤ 255 →
      (if b.length > 257 then (Out.err : Out (Bytes × Nat)) else .ok (b, b.length)) =
        .ok (capBytes c, (capBytes c).length) := by
    intro b hb hv
    have : ¬ b.length > 257 := by rw [hb]; simp [capBytes]; omega
    rw [if_neg this, hb]
  cases c with
  | mp f => simp only [Cap.encode]; exact fin _ (by simp [capBytes, capValue, capCode]) (by simp [capValue])
  | rr => simp only [Cap.encode]; exact fin _ (by simp [capBytes, capValue, capCode]) (by simp [capValue])
  | em => simp only [Cap.encode]; exact fin _ (by simp [capBytes, capValue, capCode]) (by simp [capValue])
  | err => simp only [Cap.encode]; exact fin _ (by simp [capBytes, capValue, capCode]) (by simp [capValue])
  | as4 n => simp only [Cap.encode]; exact fin _ (by simp [capBytes, capValue, capCode]) (by simp [capValue])
  | enh v =>
      simp only [capOk, Bool.and_eq_true, decide_eq_true_eq] at h
      obtain ⟨_, hl⟩ := h
      have hvl : (capValue (.enh v)).length = v.length * 6 :=
        flatMap_length_const v _ 6 (by intro x _; simp [Fam.u32])
      have hm : v.length * 6 % 256 = v.length * 6 := Nat.mod_eq_of_lt (by omega)
      simp only [Cap.encode, hm]
      exact fin _ (by simp only [capBytes, hvl]; rfl) (by omega)
  | ap v =>
      simp only [capOk, Bool.and_eq_true, decide_eq_true_eq] at h
      obtain ⟨_, hl⟩ := h
      have hvl : (capValue (.ap v)).length = v.length * 4 :=
        flatMap_length_const v _ 4 (by intro x _; simp)
      have hm : v.length * 4 % 256 = v.length * 4 := Nat.mod_eq_of_lt (by omega)
      simp only [Cap.encode, hm]
      exact fin _ (by simp only [capBytes, hvl]; rfl) (by omega)
  | llgr v =>
      simp only [capOk, Bool.and_eq_true, decide_eq_true_eq] at h
      obtain ⟨_, hl⟩ := h
      have hvl : (capValue (.llgr v)).length = v.length * 7 :=
        flatMap_length_const v _ 7 (by intro x _; simp)
      have hm : v.length * 7 % 256 = v.length * 7 := Nat.mod_eq_of_lt (by omega)
      simp only [Cap.encode, hm]
      exact fin _ (by simp only [capBytes, hvl]; rfl) (by omega)
  | gr flags time fams =>
      simp only [capOk, Bool.and_eq_true, decide_eq_true_eq] at h
      obtain ⟨⟨⟨hf, ht⟩, _⟩, hl⟩ := h
      have hvl : (capValue (.gr flags time fams)).length = fams.length * 4 + 2 := by
        simp only [capValue, List.length_append, be16_length]
        rw [flatMap_length_const fams _ 4 (by intro x _; simp)]; omega
      have hm : (fams.length * 4 + 2) % 256 = fams.length * 4 + 2 := Nat.mod_eq_of_lt (by omega)
      simp only [Cap.encode, hm, lor_flags flags time hf ht]
      exact fin _ (by simp only [capBytes, hvl]; simp [capValue, capCode]) (by omega)
  | fqdn hh d =>
      simp only [capOk, Bool.and_eq_true, decide_eq_true_eq] at h
      obtain ⟨_, hl⟩ := h
      have hvl : (capValue (.fqdn hh d)).length = 2 + hh.length + d.length := by
        simp [capValue]; omega
      simp only [Cap.encode]
      rw [Nat.mod_eq_of_lt (by omega : 2 + hh.length + d.length < 256), Nat.mod_eq_of_lt (by omega : hh.length < 256),
          Nat.mod_eq_of_lt (by omega : d.length < 256)]
      exact fin _ (by simp only [capBytes, hvl]; simp [capValue, capCode]) (by omega)
  | unk code bin =>
      simp only [capOk, Bool.and_eq_true, decide_eq_true_eq] at h
      obtain ⟨_, hl⟩ := h
      simp only [Cap.encode]
      rw [Nat.mod_eq_of_lt (by omega : bin.length < 256)]
      exact fin _ (by simp [capBytes, capValue, capCode]) (by simp [capValue]; omega)

theorem encodeCaps_eq (caps : List Cap) (acc : Nat) (h : ∀ c ∈ caps, capOk c = true) :
    encodeCaps caps acc = .ok (caps.flatMap capBytes, acc + (caps.flatMap capBytes).length) := by
  induction caps generalizing acc with
  | nil => simp [encodeCaps]
  | cons c cs ih =>
      simp only [encodeCaps]
      rw [cap_encode c (h c (by simp))]
      simp only [Out.bind_ok]
      rw [ih _ (fun x hx => h x (by simp [hx]))]
      simp only [Out.bind_ok, Out.pure_eq, List.flatMap_cons, List.length_append]
      congr 2; omega

/-! ### decoding -/

theorem capTlvs_enc (caps : List Cap) (h : ∀ c ∈ caps, (capValue c).length < 256) :
    capTlvs (caps.flatMap capBytes) = some (caps.map (fun c => (capCode c, capValue c))) := by
  induction caps with
  | nil => simp [capTlvs]
  | cons c cs ih =>
      have e : (c :: cs).flatMap capBytes = capCode c :: (capValue c).length :: (capValue c ++ cs.flatMap capBytes) := by
        simp [capBytes]
      rw [e, capTlvs]
      have hl : ¬ (capValue c ++ cs.flatMap capBytes).length < (capValue c).length := by simp
      simp only [hl, dite_false]
      rw [List.drop_left' rfl, List.take_left' rfl, ih (fun x hx => h x (by simp [hx]))]
      simp

theorem groups_flatMap {α : Type} (n : Nat) (hn : n ≠ 0) (l : List α) (g : α → Bytes) (h : ∀ x ∈ l, (g x).length = n) :
    groups n (l.flatMap g) = l.map g := by
  induction l with
  | nil => rw [groups]; simp [hn]
  | cons x xs ih =>
      rw [List.flatMap_cons, groups]
      have hx := h x (by simp)
      have hc : ¬ (n = 0 ∨ (g x ++ xs.flatMap g).length < n) := by simp [hn, hx]
      simp only [hc, dite_false]
      rw [List.take_left' hx, List.drop_left' hx, ih (fun y hy => h y (by simp [hy]))]
      simp

theorem lower_idem (b : Nat) : lower (lower b) = lower b := by
  unfold lower
  by_cases h : 65 ≤ b ∧ b ≤ 90
  · have h2 : ¬ (65 ≤ b + 32 ∧ b + 32 ≤ 90) := by omega
    rw [if_pos h, if_neg h2]
  · rw [if_neg h, if_neg h]

theorem lower_lt (b : Nat) (h : b < 128) : lower b < 128 := by
  unfold lower; split <;> omega

theorem famOfU32_u32 (f : Fam) (hfa : f.afi < 65536) : famOfU32 f.u32 = f := u32_parts f hfa

theorem beNat_triple (a b c : Nat) : beNat [a, b, c] = (a * 256 + b) * 256 + c := by simp [beNat]

theorem filterMap_map_some {α β : Type} (l : List α) (g : α → β) (k : β → Option α) (h : ∀ x ∈ l, k (g x) = some x) :
    (l.map g).filterMap k = l := by
  induction l with
  | nil => rfl
  | cons x xs ih =>
      rw [List.map_cons, List.filterMap_cons, h x (by simp), ih (fun y hy => h y (by simp [hy]))]

theorem map_map_id {α β : Type} (l : List α) (g : α → β) (k : β → α) (h : ∀ x ∈ l, k (g x) = x) :
    (l.map g).map k = l := by
  induction l with
  | nil => rfl
  | cons x xs ih =>
      rw [List.map_cons, List.map_cons, h x (by simp), ih (fun y hy => h y (by simp [hy]))]

theorem decodeCap_enc (c : Cap) (h : capOk c = true) : decodeCap (capCode c) (capValue c) = some (canonCap c) := by
  cases c with
  | rr => simp [decodeCap, capCode, capValue, canonCap]
  | em => simp [decodeCap, capCode, capValue, canonCap]
  | err => simp [decodeCap, capCode, capValue, canonCap]
  | mp f =>
      simp only [capOk, famOk, Bool.and_eq_true, decide_eq_true_eq] at h
      have := u32_parts f h.1
      simp only [Fam.u32] at this
      simp [decodeCap, capCode, capValue, canonCap, this]
  | as4 n =>
      simp only [capOk, decide_eq_true_eq] at h
      simp [decodeCap, capCode, capValue, canonCap, beNat_be32 h]
  | unk code bin =>
      simp only [capOk, Bool.and_eq_true, decide_eq_true_eq, Bool.not_eq_true', knownCapCodes] at h
      obtain ⟨⟨⟨_, hk⟩, _⟩, _⟩ := h
      simp only [List.contains_eq_mem, List.mem_cons, List.not_mem_nil, or_false, decide_eq_false_iff_not, not_or] at hk
      obtain ⟨h1, h2, h5, h6, h64, h65, h69, h70, h71, h73⟩ := hk
      simp [decodeCap, capCode, capValue, canonCap, h1, h2, h5, h6, h64, h65, h69, h70, h71, h73]
  | enh v =>
      simp only [capOk, Bool.and_eq_true, decide_eq_true_eq, List.all_eq_true, beq_iff_eq] at h
      obtain ⟨hall, hl⟩ := h
      have hvl : (capValue (.enh v)).length = v.length * 6 :=
        flatMap_length_const v _ 6 (by intro x _; simp [Fam.u32])
      simp only [decodeCap, capCode, show ¬ ((5 : Nat) = 1) by decide, show ¬ ((5 : Nat) = 2) by decide, if_false, if_true,
        canonCap, hvl]
      have hm : ¬ (v.length * 6 % 6 ≠ 0) := by omega
      simp only [hm, if_false, capValue]
      rw [groups_flatMap 6 (by decide) v _ (by intro x _; simp [Fam.u32])]
      congr 2
      apply filterMap_map_some
      intro x hx
      obtain ⟨⟨hfo, ha1⟩, hx2⟩ := hall x hx
      simp only [famOk, Bool.and_eq_true, decide_eq_true_eq] at hfo
      have e1 : famOfU32 (x.1.u32 ++ be16 x.2) = x.1 := by
        simp only [famOfU32, Fam.u32]
        rw [show be16 x.1.afi ++ [0, x.1.safi] ++ be16 x.2 = be16 x.1.afi ++ ([0, x.1.safi] ++ be16 x.2) by simp,
            List.take_left' (be16_length _), beNat_be16 hfo.1]
        rw [show be16 x.1.afi ++ ([0, x.1.safi] ++ be16 x.2) = (be16 x.1.afi ++ [0]) ++ ([x.1.safi] ++ be16 x.2) by simp,
            List.drop_left' (by simp)]
        cases x with
        | mk f m => cases f; simp
      have e2 : beNat ((x.1.u32 ++ be16 x.2).drop 4) = x.2 := by
        rw [List.drop_left' (by simp [Fam.u32]), beNat_be16 (by omega)]
      rw [e1, e2]
      have : ¬ (x.1.afi ≠ 1 ∨ x.2 ≠ 2) := by simp [ha1, hx2]
      rw [if_neg this]
  | ap v =>
      simp only [capOk, Bool.and_eq_true, decide_eq_true_eq, List.all_eq_true] at h
      obtain ⟨hall, hl⟩ := h
      have hvl : (capValue (.ap v)).length = v.length * 4 :=
        flatMap_length_const v _ 4 (by intro x _; simp)
      simp only [decodeCap, capCode, show ¬ ((69 : Nat) = 1) by decide, show ¬ ((69 : Nat) = 2) by decide,
        show ¬ ((69 : Nat) = 5) by decide, show ¬ ((69 : Nat) = 64) by decide, show ¬ ((69 : Nat) = 65) by decide,
        if_false, if_true, canonCap, hvl]
      have hm : ¬ (v.length * 4 % 4 ≠ 0) := by omega
      simp only [hm, if_false, capValue]
      rw [groups_flatMap 4 (by decide) v _ (by intro x _; simp)]
      congr 2
      apply filterMap_map_some
      intro x hx
      obtain ⟨⟨hfo, hm1⟩, hm3⟩ := hall x hx
      simp only [famOk, Bool.and_eq_true, decide_eq_true_eq] at hfo
      have e1 : beNat ((be16 x.1.afi ++ [x.1.safi, x.2]).take 2) = x.1.afi := by
        rw [List.take_left' (be16_length _), beNat_be16 hfo.1]
      have e2 : beNat (((be16 x.1.afi ++ [x.1.safi, x.2]).drop 2).take 1) = x.1.safi := by
        rw [List.drop_left' (be16_length _)]; simp
      have e3 : beNat ((be16 x.1.afi ++ [x.1.safi, x.2]).drop 3) = x.2 := by
        rw [show be16 x.1.afi ++ [x.1.safi, x.2] = (be16 x.1.afi ++ [x.1.safi]) ++ [x.2] by simp,
            List.drop_left' (by simp)]; simp
      simp only [e1, e2, e3]
      have : ¬ (x.2 = 0 ∨ x.2 > 3) := by omega
      simp only [this, if_false]
  | gr flags time fams =>
      simp only [capOk, Bool.and_eq_true, decide_eq_true_eq, List.all_eq_true] at h
      obtain ⟨⟨⟨hf, ht⟩, hall⟩, hl⟩ := h
      have hvl : (capValue (.gr flags time fams)).length = fams.length * 4 + 2 := by
        simp only [capValue, List.length_append, be16_length]
        rw [flatMap_length_const fams _ 4 (by intro x _; simp)]; omega
      simp only [decodeCap, capCode, show ¬ ((64 : Nat) = 1) by decide, show ¬ ((64 : Nat) = 2) by decide,
        show ¬ ((64 : Nat) = 5) by decide, if_false, if_true, canonCap, hvl]
      have hm : ¬ ((fams.length * 4 + 2) % 4 ≠ 2) := by omega
      simp only [hm, if_false, capValue]
      rw [List.take_left' (be16_length _), List.drop_left' (be16_length _), beNat_be16 (by omega)]
      rw [groups_flatMap 4 (by decide) fams _ (by intro x _; simp)]
      have hd : (flags * 4096 + time) / 4096 = flags := by omega
      have hmd : (flags * 4096 + time) % 4096 = time := by omega
      rw [hd, hmd]
      congr 2
      apply map_map_id
      intro x hx
      obtain ⟨hfo, hx2⟩ := hall x hx
      simp only [famOk, Bool.and_eq_true, decide_eq_true_eq] at hfo
      have e1 : beNat ((be16 x.1.afi ++ [x.1.safi, x.2]).take 2) = x.1.afi := by
        rw [List.take_left' (be16_length _), beNat_be16 hfo.1]
      have e2 : beNat (((be16 x.1.afi ++ [x.1.safi, x.2]).drop 2).take 1) = x.1.safi := by
        rw [List.drop_left' (be16_length _)]; simp
      have e3 : beNat ((be16 x.1.afi ++ [x.1.safi, x.2]).drop 3) = x.2 := by
        rw [show be16 x.1.afi ++ [x.1.safi, x.2] = (be16 x.1.afi ++ [x.1.safi]) ++ [x.2] by simp,
            List.drop_left' (by simp)]; simp
      simp only [e1, e2, e3]
  | llgr v =>
      simp only [capOk, Bool.and_eq_true, decide_eq_true_eq, List.all_eq_true] at h
      obtain ⟨hall, hl⟩ := h
      have hvl : (capValue (.llgr v)).length = v.length * 7 :=
        flatMap_length_const v _ 7 (by intro x _; simp)
      simp only [decodeCap, capCode, show ¬ ((71 : Nat) = 1) by decide, show ¬ ((71 : Nat) = 2) by decide,
        show ¬ ((71 : Nat) = 5) by decide, show ¬ ((71 : Nat) = 64) by decide, show ¬ ((71 : Nat) = 65) by decide,
        show ¬ ((71 : Nat) = 69) by decide, show ¬ ((71 : Nat) = 6) by decide, show ¬ ((71 : Nat) = 70) by decide,
        if_false, if_true, canonCap, hvl]
      have hm : ¬ (v.length * 7 % 7 ≠ 0) := by omega
      simp only [hm, if_false, capValue]
      rw [groups_flatMap 7 (by decide) v _ (by intro x _; simp)]
      congr 2
      apply map_map_id
      intro x hx
      obtain ⟨⟨hfo, hx1⟩, hx2⟩ := hall x hx
      simp only [famOk, Bool.and_eq_true, decide_eq_true_eq] at hfo
      have e1 : beNat ((be16 x.1.afi ++ [x.1.safi, x.2.1, x.2.2 / 65536 % 256, x.2.2 / 256 % 256, x.2.2 % 256]).take 2) = x.1.afi := by
        rw [List.take_left' (be16_length _), beNat_be16 hfo.1]
      have e2 : beNat (((be16 x.1.afi ++ [x.1.safi, x.2.1, x.2.2 / 65536 % 256, x.2.2 / 256 % 256, x.2.2 % 256]).drop 2).take 1) = x.1.safi := by
        rw [List.drop_left' (be16_length _)]; simp
      have e3 : beNat (((be16 x.1.afi ++ [x.1.safi, x.2.1, x.2.2 / 65536 % 256, x.2.2 / 256 % 256, x.2.2 % 256]).drop 3).take 1) = x.2.1 := by
        rw [show be16 x.1.afi ++ [x.1.safi, x.2.1, x.2.2 / 65536 % 256, x.2.2 / 256 % 256, x.2.2 % 256]
              = (be16 x.1.afi ++ [x.1.safi]) ++ [x.2.1, x.2.2 / 65536 % 256, x.2.2 / 256 % 256, x.2.2 % 256] by simp,
            List.drop_left' (by simp)]; simp
      have e4 : beNat ((be16 x.1.afi ++ [x.1.safi, x.2.1, x.2.2 / 65536 % 256, x.2.2 / 256 % 256, x.2.2 % 256]).drop 4) = x.2.2 := by
        rw [show be16 x.1.afi ++ [x.1.safi, x.2.1, x.2.2 / 65536 % 256, x.2.2 / 256 % 256, x.2.2 % 256]
              = (be16 x.1.afi ++ [x.1.safi, x.2.1]) ++ [x.2.2 / 65536 % 256, x.2.2 / 256 % 256, x.2.2 % 256] by simp,
            List.drop_left' (by simp), beNat_triple]
        omega
      simp only [e1, e2, e3, e4]
  | fqdn hh d =>
      simp only [capOk, Bool.and_eq_true, decide_eq_true_eq, List.all_eq_true] at h
      obtain ⟨⟨hh1, hd1⟩, hl⟩ := h
      simp only [decodeCap, capCode, show ¬ ((73 : Nat) = 1) by decide, show ¬ ((73 : Nat) = 2) by decide,
        show ¬ ((73 : Nat) = 5) by decide, show ¬ ((73 : Nat) = 64) by decide, show ¬ ((73 : Nat) = 65) by decide,
        show ¬ ((73 : Nat) = 69) by decide, show ¬ ((73 : Nat) = 6) by decide, show ¬ ((73 : Nat) = 70) by decide,
        show ¬ ((73 : Nat) = 71) by decide, if_false, if_true, canonCap]
      have hv : capValue (.fqdn hh d) = hh.length :: (hh.map lower ++ (d.length :: d.map lower)) := by
        simp [capValue]
      rw [hv]
      have hlen : (hh.length :: (hh.map lower ++ (d.length :: d.map lower))).length = 2 + hh.length + d.length := by
        simp; omega
      -- the `[_]` alternative does not apply: there is at least the domain length octet
      cases hrest : hh.map lower ++ (d.length :: d.map lower) with
      | nil => simp at hrest
      | cons r0 rs =>
          simp only []
          rw [← hrest]
          have hc1 : ¬ (hh.length + 2 > (hh.length :: (hh.map lower ++ (d.length :: d.map lower))).length) := by
            rw [hlen]; omega
          simp only [hc1, if_false]
          rw [List.take_left' (by simp), List.drop_left' (by simp)]
          simp only []
          have hc2 : ¬ (2 + hh.length + d.length > (hh.length :: (hh.map lower ++ (d.length :: d.map lower))).length) := by
            rw [hlen]; omega
          simp only [hc2, if_false]
          rw [List.take_of_length_le (by simp)]
          have a1 : utf8Valid (hh.map lower) = true := by rw [utf8Valid_lower]; exact hh1
          have a2 : utf8Valid (d.map lower) = true := by rw [utf8Valid_lower]; exact hd1
          simp [utf8OrEmpty, a1, a2]

end Rbgp.Enc
