/-
  Rbgp.Enc.Proofs.TwoByteBlock — the whole attribute block towards a 2-octet-AS peer: what `encodeAttrs` writes, its
  size (the Spec's `attrWireSize true`), the `AttrPart` instance (attribute loop + `reconcile_as4`), and that the
  decoded attributes re-encode to the same block (fixed point).
-/
import Rbgp.Enc.Proofs.TwoByte
import Rbgp.Enc.Proofs.Dom
namespace Rbgp.Enc
open Rbgp.Enc.Spec

/-- attribute block written for 2-octet-AS peers -/
def attrBlock2 (attrs : List Attr) : Bytes := attrs.flatMap (fun a => (wire2 a).flatMap (fun x => encRaw (rawOf x)))

theorem addLens_pairs (acc : Nat) (xs : List Attr) (h : ∀ x ∈ xs, (encRaw (rawOf x)).length < 65536) :
    addLens acc (xs.map encPair) = acc + (xs.flatMap (fun x => encRaw (rawOf x))).length := by
  induction xs generalizing acc with
  | nil => simp [addLens]
  | cons x rest ih =>
      simp only [List.map_cons, addLens, encPair, List.flatMap_cons, List.length_append]
      rw [Nat.mod_eq_of_lt (h x (by simp)), ih _ (fun y hy => h y (by simp [hy]))]
      omega

theorem flatMap_fst_pairs (xs : List Attr) :
    (xs.map encPair).flatMap (·.1) = xs.flatMap (fun x => encRaw (rawOf x)) := by
  simp [List.flatMap_map, encPair]

theorem length_le_flatMap {α : Type} (l : List α) (f : α → Bytes) (x : α) (hx : x ∈ l) :
    (f x).length ≤ (l.flatMap f).length := by
  induction l with
  | nil => cases hx
  | cons a rest ih =>
      simp only [List.flatMap_cons, List.length_append]
      rcases List.mem_cons.mp hx with rfl | hx
      · omega
      · have := ih hx; omega

theorem encodeAttrs_two (p : Profile) (attrs : List Attr) (acc : Nat)
    (h : ∀ a ∈ attrs, attrOk a = true) (hsum : acc + (attrBlock2 attrs).length < 65536) :
    encodeAttrs p true attrs acc = .ok (attrBlock2 attrs, acc + (attrBlock2 attrs).length) := by
  induction attrs generalizing acc with
  | nil => simp [encodeAttrs, attrBlock2]
  | cons a as ih =>
      have hl : ((wire2 a).flatMap (fun x => encRaw (rawOf x))).length + (attrBlock2 as).length
          = (attrBlock2 (a :: as)).length := by simp [attrBlock2]
      simp only [encodeAttrs]
      rw [encodeOneAttr_two a (h a (by simp))]
      simp only [Out.bind_ok]
      have hx : ∀ x ∈ wire2 a, (encRaw (rawOf x)).length < 65536 := by
        intro x hx
        have := length_le_flatMap (wire2 a) (fun x => encRaw (rawOf x)) x hx
        omega
      rw [addLens_pairs acc _ hx, ih _ (fun x hx => h x (by simp [hx])) (by omega)]
      simp only [Out.bind_ok, Out.pure_eq, flatMap_fst_pairs]
      simp only [attrBlock2, List.flatMap_cons, List.length_append]
      congr 2
      omega

/-! ### sizes: the Spec's `attrWireSize true` -/

theorem foldl_add_sum {α : Type} (l : List α) (g : α → Nat) (n : Nat) :
    l.foldl (fun acc s => acc + g s) n = n + (l.map g).sum := by
  induction l generalizing n with
  | nil => simp
  | cons a rest ih => simp only [List.foldl_cons, ih, List.map_cons, List.sum_cons]; omega

theorem tlvSize_192 (n : Nat) : tlvSize 192 n = tlvSize 0 n := by simp [tlvSize]

theorem encRaw_rawOf_bin (code flags : Nat) (b : Bytes) (hc : ¬ (code = 1)) :
    (encRaw (rawOf ⟨code, flags, .bin b⟩)).length = tlvSize flags b.length := by
  have := encRaw_rawOf_length ⟨code, flags, .bin b⟩
  simpa [attrWireSize, wireValue, hc] using this

theorem wire2_size (a : Attr) (h : attrOk a = true) :
    ((wire2 a).flatMap (fun x => encRaw (rawOf x))).length = attrWireSize true a := by
  unfold wire2 attrWireSize
  by_cases h2 : a.code = 2
  · obtain ⟨b, segs, _, hw, hp, _, _, _, _⟩ := aspath_of_attrOk a h h2
    have hsegs : asSegs a = segs := by simp [asSegs, hw, hp]
    have hsmall : segs.foldl (fun acc s => acc + 2 + 2 * s.2.length) 0 = (encSegs 2 (downSegs segs)).length := by
      rw [encSegs_length 2 (Or.inl rfl)]
      have := foldl_add_sum segs (fun s => 2 + 2 * s.2.length) 0
      simp only [Nat.zero_add] at this
      have e : (fun (acc : Nat) (s : Seg) => acc + 2 + 2 * s.2.length) = (fun acc s => acc + (2 + 2 * s.2.length)) := by
        funext acc s; omega
      rw [e, this]
      simp [downSegs, List.map_map, Function.comp_def]
    have hbig : (segs.filter (fun s => decide (s.1 ≠ 3 ∧ s.1 ≠ 4))).foldl (fun acc s => acc + 2 + 4 * s.2.length) 0
        = (encSegs 4 (segs.filter nonConfedSeg)).length := by
      rw [encSegs_length 4 (Or.inr rfl)]
      have := foldl_add_sum (segs.filter nonConfedSeg) (fun s => 2 + 4 * s.2.length) 0
      simp only [Nat.zero_add] at this
      have e : (fun (acc : Nat) (s : Seg) => acc + 2 + 4 * s.2.length) = (fun acc s => acc + (2 + 4 * s.2.length)) := by
        funext acc s; omega
      rw [e]
      exact this
    have hwide : segs.any (fun s => s.2.any (fun x => decide (x > 65535))) = hasWideSegs segs := rfl
    simp only [h2, and_true, if_true, hw, hp, hsmall, hbig, hwide, hsegs, true_and]
    by_cases hws : hasWideSegs segs = true
    · simp only [hws, if_true, List.flatMap_cons, List.flatMap_nil, List.append_nil, List.length_append]
      rw [show downAttr a = ⟨2, a.flags, .bin (encSegs 2 (downSegs segs))⟩ by simp [downAttr, hsegs],
          show as4PathAttr a = ⟨17, 192, .bin (encSegs 4 (segs.filter nonConfedSeg))⟩ by simp [as4PathAttr, hsegs],
          encRaw_rawOf_bin 2 _ _ (by decide), encRaw_rawOf_bin 17 _ _ (by decide), tlvSize_192]
    · simp only [hws, Bool.false_eq_true, if_false, List.flatMap_cons, List.flatMap_nil, List.append_nil, Nat.add_zero]
      rw [show downAttr a = ⟨2, a.flags, .bin (encSegs 2 (downSegs segs))⟩ by simp [downAttr, hsegs],
          encRaw_rawOf_bin 2 _ _ (by decide)]
  · by_cases h7 : a.code = 7
    · obtain ⟨b, _, hw, hl8, _⟩ := aggr_of_attrOk a h h7
      have h6 : (be16 (if aggAsn a > 65535 then TRANS_ASN else aggAsn a) ++ ((wireValue a).drop 4).take 4).length = 6 := by
        simp [List.length_take, List.length_drop, hw, hl8]
      have e2 : ¬ (true = true ∧ a.code = 2) := fun hh => h2 hh.2
      have e7 : (true = true ∧ a.code = 7) := ⟨rfl, h7⟩
      rw [if_neg h2, if_pos h7, if_neg e2, if_pos e7]
      by_cases hwd : aggAsn a > 65535
      · have hwd' : beNat ((wireValue a).take 4) > 65535 := hwd
        simp only [hwd, if_true, hwd', List.flatMap_cons, List.flatMap_nil, List.append_nil, List.length_append]
        rw [show aggDownAttr a = ⟨7, a.flags, .bin (be16 TRANS_ASN ++ ((wireValue a).drop 4).take 4)⟩ by
              simp [aggDownAttr, hwd],
            show as4AggAttr a = ⟨18, 192, .bin (wireValue a)⟩ by rfl,
            encRaw_rawOf_bin 7 _ _ (by decide), encRaw_rawOf_bin 18 _ _ (by decide), tlvSize_192]
        simp only [hwd, if_true] at h6
        rw [h6, hw, hl8]
      · have hwd' : ¬ beNat ((wireValue a).take 4) > 65535 := hwd
        simp only [hwd, if_false, hwd', List.flatMap_cons, List.flatMap_nil, List.append_nil, Nat.add_zero]
        rw [show aggDownAttr a = ⟨7, a.flags, .bin (be16 (aggAsn a) ++ ((wireValue a).drop 4).take 4)⟩ by
              simp [aggDownAttr, hwd],
            encRaw_rawOf_bin 7 _ _ (by decide)]
        simp only [hwd, if_false] at h6
        rw [h6]
    · have e2 : ¬ (true = true ∧ a.code = 2) := fun hh => h2 hh.2
      have e7 : ¬ (true = true ∧ a.code = 7) := fun hh => h7 hh.2
      rw [if_neg h2, if_neg h7, if_neg e2, if_neg e7]
      simp only [List.flatMap_cons, List.flatMap_nil, List.append_nil]
      have := encRaw_rawOf_length a
      simpa [attrWireSize] using this

theorem attrBlock2_length (attrs : List Attr) (h : ∀ a ∈ attrs, attrOk a = true) :
    (attrBlock2 attrs).length = (attrs.map (attrWireSize true)).sum := by
  induction attrs with
  | nil => rfl
  | cons a as ih =>
      simp only [attrBlock2, List.flatMap_cons, List.length_append, List.map_cons, List.sum_cons] at ih ⊢
      rw [wire2_size a (h a (by simp)), ih (fun x hx => h x (by simp [hx]))]

/-! ### the `AttrPart` instance -/

theorem wire2_codes (a : Attr) : (wire2 a).map (·.code) = (pre2 a).map (·.code) := by
  unfold wire2 pre2
  by_cases h2 : a.code = 2
  · rw [if_pos h2, if_pos h2]
    by_cases hw : hasWideSegs (asSegs a) = true
    · simp [hw, downAttr, upAttr, wireAttr]
    · simp [hw, downAttr, upAttr]
  · rw [if_neg h2, if_neg h2]
    by_cases h7 : a.code = 7
    · rw [if_pos h7, if_pos h7]
      by_cases hw : aggAsn a > 65535
      · simp [hw, aggDownAttr, aggUpAttr, wireAttr]
      · simp [hw, aggDownAttr, aggUpAttr]
    · rw [if_neg h7, if_neg h7]; simp [wireAttr]

theorem written_codes (attrs : List Attr) :
    (attrs.flatMap wire2).map (·.code) = (attrs.flatMap pre2).map (·.code) := by
  induction attrs with
  | nil => rfl
  | cons a rest ih => simp only [List.flatMap_cons, List.map_append, wire2_codes, ih]

theorem wire2_len (a : Attr) (h : attrOk a = true) : ∀ x ∈ wire2 a, (wireValue x).length < 65536 := by
  intro x hx
  unfold wire2 at hx
  by_cases h2 : a.code = 2
  · rw [if_pos h2] at hx
    obtain ⟨b, segs, _, hw, hp, _, henc, _, hl⟩ := aspath_of_attrOk a h h2
    have hsegs : asSegs a = segs := by simp [asSegs, hw, hp]
    have hl1 := downSegs_length_le segs
    have hl2 := filterSegs_length_le segs nonConfedSeg
    rw [henc] at hl1 hl2
    rcases List.mem_cons.mp hx with rfl | hx
    · simp only [downAttr, wireValue, show ¬ ((2 : Nat) = 1) by decide, if_false, hsegs]; omega
    · by_cases hws : hasWideSegs (asSegs a) = true
      · rw [if_pos hws] at hx
        have := List.mem_singleton.mp hx; subst this
        simp only [as4PathAttr, wireValue, show ¬ ((17 : Nat) = 1) by decide, if_false, hsegs]; omega
      · rw [if_neg hws] at hx; cases hx
  · rw [if_neg h2] at hx
    by_cases h7 : a.code = 7
    · rw [if_pos h7] at hx
      obtain ⟨b, _, hw, hl8, _⟩ := aggr_of_attrOk a h h7
      rcases List.mem_cons.mp hx with rfl | hx
      · simp [aggDownAttr, wireValue, List.length_take]; omega
      · by_cases hwd : aggAsn a > 65535
        · rw [if_pos hwd] at hx
          have := List.mem_singleton.mp hx; subst this
          have : wireValue (as4AggAttr a) = wireValue a := rfl
          rw [this, hw, hl8]; omega
        · rw [if_neg hwd] at hx; cases hx
    · rw [if_neg h7] at hx
      have := List.mem_singleton.mp hx; subst this
      exact attrOk_len x h

theorem mem_written_code (attrs : List Attr) (c : Nat) (hc : c ∈ (attrs.flatMap wire2).map (·.code)) :
    (∃ a ∈ attrs, c = a.code) ∨ c = 17 ∨ c = 18 := by
  rw [written_codes] at hc
  obtain ⟨x, hx, rfl⟩ := List.mem_map.mp hc
  obtain ⟨a, ha, hxa⟩ := (mem_pre2 attrs x).mp hx
  rcases hxa with rfl | hxa
  · exact Or.inl ⟨a, ha, hd2_code a⟩
  · rcases ext2_code a x hxa with ⟨h1, _, _⟩ | ⟨h1, _, _⟩
    · exact Or.inr (Or.inl h1)
    · exact Or.inr (Or.inr h1)

theorem code_mem_written (attrs : List Attr) (a : Attr) (ha : a ∈ attrs) : a.code ∈ (attrs.flatMap wire2).map (·.code) := by
  rw [written_codes]
  exact List.mem_map.mpr ⟨hd2 a, (mem_pre2 attrs _).mpr ⟨a, ha, Or.inl rfl⟩, hd2_code a⟩

/-- the 2-octet-AS instance: the attribute loop and `reconcile_as4` return every input attribute (flags as on the
    wire), provided the AS_PATH is carriable -/
def attrPart2 (attrs : List Attr) (hok : AttrsOk attrs) (hcar : ∀ a ∈ attrs, Carriable a)
    (h1 : hasCode 1 attrs = true) (h2 : hasCode 2 attrs = true) :
    AttrPart true (attrBlock2 attrs) (attrs.map fin2) where
  raws := (attrs.flatMap wire2).map rawOf
  seen := ((attrs.flatMap wire2).map (·.code)).reverse
  pre := attrs.flatMap pre2
  hab := by simp [attrBlock2, List.flatMap_map, List.flatMap_assoc]
  hraw := by
    intro r hr
    obtain ⟨x, hx, rfl⟩ := List.mem_map.mp hr
    obtain ⟨a, ha, hxa⟩ := List.mem_flatMap.mp hx
    exact rawOf_ok x (wire2_len a (hok.1 a ha).1 x hxa)
  hloop := by
    intro rest
    have hrel : Rel2 Steps (attrs.flatMap wire2) (attrs.flatMap pre2) :=
      forall₂_flatMap attrs wire2 pre2 (fun a ha => steps_wire2 a (hok.1 a ha).1 (hok.1 a ha).2 (hcar a ha))
    have hnd : ((attrs.flatMap wire2).map (·.code)).Nodup := by rw [written_codes]; exact nodup_pre2 attrs hok
    have := loop_steps _ _ hrel hnd {} (by intro x _; rfl) rest
    simpa using this
  h1 := by
    obtain ⟨a, ha, hc⟩ := List.mem_map.mp (hasCode_mem h1)
    exact contains_of_mem (by rw [List.mem_reverse, ← hc]; exact code_mem_written attrs a ha)
  h2 := by
    obtain ⟨a, ha, hc⟩ := List.mem_map.mp (hasCode_mem h2)
    exact contains_of_mem (by rw [List.mem_reverse, ← hc]; exact code_mem_written attrs a ha)
  h3 := by
    apply Bool.eq_false_iff.mpr; intro h
    simp only [List.contains_iff_mem, List.mem_reverse] at h
    rcases mem_written_code attrs 3 h with ⟨a, ha, hc⟩ | hc | hc
    · exact (hok.1 a ha).2.1 hc.symm
    · omega
    · omega
  h14 := by
    apply Bool.eq_false_iff.mpr; intro h
    simp only [List.contains_iff_mem, List.mem_reverse] at h
    rcases mem_written_code attrs 14 h with ⟨a, ha, hc⟩ | hc | hc
    · exact (hok.1 a ha).2.2.1 hc.symm
    · omega
    · omega
  h15 := by
    apply Bool.eq_false_iff.mpr; intro h
    simp only [List.contains_iff_mem, List.mem_reverse] at h
    rcases mem_written_code attrs 15 h with ⟨a, ha, hc⟩ | hc | hc
    · exact (hok.1 a ha).2.2.2.1 hc.symm
    · omega
    · omega
  hplain := by
    intro r hr
    obtain ⟨x, hx, rfl⟩ := List.mem_map.mp hr
    have hc : x.code ∈ (attrs.flatMap wire2).map (·.code) := List.mem_map_of_mem hx
    have hcode : (rawOf x).code = x.code := rfl
    rw [hcode]
    rcases mem_written_code attrs x.code hc with ⟨a, ha, hca⟩ | h | h
    · rw [hca]; exact ⟨(hok.1 a ha).2.2.1, (hok.1 a ha).2.2.2.1⟩
    · omega
    · omega
  hfin := by simp only [if_true]; exact reconcile_pre2 attrs hok hcar

/-! ### the decoded attributes re-encode to the same block (fixed point) -/

/-- the written attribute whose wire flags `fin2 a` carries -/
def rep2 (a : Attr) : Attr := if a.code = 2 then downAttr a else if a.code = 7 then aggDownAttr a else a

theorem rep2_flags (a : Attr) : (rep2 a).flags = a.flags := by
  unfold rep2; split
  · rfl
  · split <;> rfl

theorem fin2_eq (a : Attr) : fin2 a = ⟨a.code, (rawOf (rep2 a)).flags, a.data⟩ := by
  unfold fin2 rep2
  by_cases h2 : a.code = 2
  · simp [h2]
  · by_cases h7 : a.code = 7
    · simp [h2, h7]
    · simp [h2, h7, wireAttr]

theorem rawOf_flags_lt (y : Attr) (h : y.flags < 256) : (rawOf y).flags < 256 := by
  simp only [rawOf]; split
  · exact setExt_lt _ h
  · exact h

theorem clearExt_rawOf (y : Attr) : clearExt (rawOf y).flags = clearExt y.flags := by
  simp only [rawOf]
  split
  · unfold clearExt setExt
    by_cases he : hasExt y.flags = true
    · simp [he]
    · have he0 : hasExt y.flags = false := by simpa using he
      have h0 : y.flags / 16 % 2 = 0 := by
        have : ¬ y.flags / 16 % 2 = 1 := fun hc => he ((hasExt_iff _).mpr hc)
        omega
      simp only [he0, Bool.false_eq_true, if_false]
      have h1 : (y.flags + 16) / 16 % 2 = 1 := by omega
      rw [if_pos h1, if_neg (by omega)]
      omega
  · rfl

theorem attrOk_fin2 (a : Attr) (h : attrOk a = true) : attrOk (fin2 a) = true := by
  rw [fin2_eq]
  have hhi : (rawOf (rep2 a)).flags / 64 = a.flags / 64 := by rw [rawOf_flags_hi, rep2_flags]
  simp only [attrOk, Bool.and_eq_true, decide_eq_true_eq] at h ⊢
  obtain ⟨⟨⟨⟨hc, hf⟩, hb⟩, hl⟩, hm⟩ := h
  have hwv : wireValue ⟨a.code, (rawOf (rep2 a)).flags, a.data⟩ = wireValue a := rfl
  refine ⟨⟨⟨⟨hc, rawOf_flags_lt _ (by rw [rep2_flags]; exact hf)⟩, by rw [hwv]; exact hb⟩, by rw [hwv]; exact hl⟩, ?_⟩
  show (match canonicalFlags a.code with
    | some exp => (rawOf (rep2 a)).flags / 64 % 4 == exp / 64 % 4 &&
        decodeAttrData a.code (wireValue ⟨a.code, (rawOf (rep2 a)).flags, a.data⟩) false == some a.data
    | none => (match a.data with | .opq _ => true | _ => false) && (rawOf (rep2 a)).flags / 64 % 4 == 3) = true
  rw [hwv, hhi]
  exact hm

theorem canonAttr_fin2 (a : Attr) : canonAttr (fin2 a) = canonAttr a := by
  rw [fin2_eq]
  simp only [canonAttr, clearExt_rawOf, rep2_flags]

theorem fin2_code (a : Attr) : (fin2 a).code = a.code := by rw [fin2_eq]

theorem attrsOk_fin2 (attrs : List Attr) (h : AttrsOk attrs) : AttrsOk (attrs.map fin2) := by
  obtain ⟨hall, hnd⟩ := h
  refine ⟨?_, ?_⟩
  · intro a ha
    obtain ⟨b, hb, rfl⟩ := List.mem_map.mp ha
    exact ⟨attrOk_fin2 b (hall b hb).1, by rw [fin2_code]; exact (hall b hb).2⟩
  · have : (attrs.map fin2).map (·.code) = attrs.map (·.code) := by
      rw [List.map_map]; apply List.map_congr_left; intro a _; exact fin2_code a
    rw [this]; exact hnd

theorem hasCode_fin2 (c : Nat) (attrs : List Attr) : hasCode c (attrs.map fin2) = hasCode c attrs := by
  simp only [hasCode, List.any_map, Function.comp_def, fin2_code]

theorem sortAttrs_fin2 (attrs : List Attr) :
    sortAttrs ((attrs.map fin2).map canonAttr) = sortAttrs (attrs.map canonAttr) := by
  congr 1
  rw [List.map_map]
  apply List.map_congr_left
  intro a _
  exact canonAttr_fin2 a

/-- re-flagging with the wire flags does not change what is written -/
theorem rawOf_reflag (y : Attr) : rawOf ⟨y.code, (rawOf y).flags, y.data⟩ = rawOf y := by
  have hwv : ∀ f, wireValue ⟨y.code, f, y.data⟩ = wireValue y := fun _ => rfl
  unfold rawOf
  simp only [hwv]
  by_cases h : (wireValue y).length > 255
  · simp [h, setExt_idem]
  · simp [h]

theorem wire2_fin2 (a : Attr) : (wire2 (fin2 a)).map rawOf = (wire2 a).map rawOf := by
  have hwv : wireValue (fin2 a) = wireValue a := by rw [fin2_eq]; rfl
  have hsegs : asSegs (fin2 a) = asSegs a := by simp [asSegs, hwv]
  have hasn : aggAsn (fin2 a) = aggAsn a := by simp [aggAsn, hwv]
  unfold wire2
  rw [fin2_code]
  by_cases h2 : a.code = 2
  · rw [if_pos h2, if_pos h2, hsegs]
    have hd : rawOf (downAttr (fin2 a)) = rawOf (downAttr a) := by
      have hfl : (fin2 a).flags = (rawOf (downAttr a)).flags := by simp [fin2, h2]
      have e : downAttr (fin2 a) = ⟨2, (fin2 a).flags, .bin (encSegs 2 (downSegs (asSegs (fin2 a))))⟩ := rfl
      have : downAttr (fin2 a) = ⟨(downAttr a).code, (rawOf (downAttr a)).flags, (downAttr a).data⟩ := by
        rw [e, hsegs, hfl]; rfl
      rw [this]; exact rawOf_reflag _
    have h4 : as4PathAttr (fin2 a) = as4PathAttr a := by
      show (⟨17, 192, .bin (encSegs 4 ((asSegs (fin2 a)).filter nonConfedSeg))⟩ : Attr) = _
      rw [hsegs]; rfl
    by_cases hw : hasWideSegs (asSegs a) = true
    · simp [hw, hd, h4]
    · simp [hw, hd]
  · rw [if_neg h2, if_neg h2]
    by_cases h7 : a.code = 7
    · rw [if_pos h7, if_pos h7, hasn]
      have hd : rawOf (aggDownAttr (fin2 a)) = rawOf (aggDownAttr a) := by
        have hfl : (fin2 a).flags = (rawOf (aggDownAttr a)).flags := by simp [fin2, h2, h7]
        have e : aggDownAttr (fin2 a) = ⟨7, (fin2 a).flags,
            .bin (be16 (if aggAsn (fin2 a) > 65535 then TRANS_ASN else aggAsn (fin2 a)) ++ ((wireValue (fin2 a)).drop 4).take 4)⟩ := rfl
        have : aggDownAttr (fin2 a) = ⟨(aggDownAttr a).code, (rawOf (aggDownAttr a)).flags, (aggDownAttr a).data⟩ := by
          rw [e, hasn, hwv, hfl]; rfl
        rw [this]; exact rawOf_reflag _
      have h4 : as4AggAttr (fin2 a) = as4AggAttr a := by
        show (⟨18, 192, .bin (wireValue (fin2 a))⟩ : Attr) = _
        rw [hwv]; rfl
      by_cases hw : aggAsn a > 65535
      · simp [hw, hd, h4]
      · simp [hw, hd]
    · rw [if_neg h7, if_neg h7]
      have : fin2 a = wireAttr a := by simp [fin2, h2, h7]
      simp [this, rawOf_wireAttr]

theorem attrBlock2_fin2 (attrs : List Attr) : attrBlock2 (attrs.map fin2) = attrBlock2 attrs := by
  have key : ∀ a, (wire2 (fin2 a)).flatMap (fun x => encRaw (rawOf x)) = (wire2 a).flatMap (fun x => encRaw (rawOf x)) := by
    intro a
    have := congrArg (List.flatMap encRaw) (wire2_fin2 a)
    simpa [List.flatMap_map] using this
  simp only [attrBlock2, List.flatMap_map, key]

/-- a carriable AS_PATH stays carriable (same value) -/
theorem carriable_fin2 (a : Attr) (h : Carriable a) : Carriable (fin2 a) := by
  have hwv : wireValue (fin2 a) = wireValue a := by rw [fin2_eq]; rfl
  have hsegs : asSegs (fin2 a) = asSegs a := by simp [asSegs, hwv]
  intro hc hw
  rw [fin2_code] at hc
  rw [hsegs] at hw ⊢
  exact h hc hw

end Rbgp.Enc
