/-
  Rbgp.Enc.Proofs.Single — messages that are always one frame (OPEN, NOTIFICATION, KEEPALIVE, ROUTE-REFRESH,
  End-of-RIB): the model run and the checker's verdict.
-/
import Rbgp.Enc.Proofs.Master
namespace Rbgp.Enc
open Rbgp.Enc.Spec

theorem encodeTo_single (p : Profile) (c : Codec) (m : Msg) (fr : Bytes) (hent : m.entries = [])
    (hdo : doEncode p c m [] = .ok (fr, 0)) : encodeTo p c m = .ok [(fr, 0)] := by
  unfold encodeTo
  rw [hent]
  simp only [hdo]

theorem decodeStream_single (od : OpaqueDec) (c : Codec) (ty : Nat) (body : Bytes) (q : Parsed)
    (hmax : 19 + body.length ≤ c.maxLen) (hlt : 19 + body.length < 65536)
    (hp : parseMessage od c (frame ty body) = .msg q) :
    decodeStream od c (frame ty body) = [.msg q] := by
  have := decodeStream_frame od c ty body [] q hmax hlt hp
  rw [List.append_nil, decodeStream_nil] at this
  exact this

theorem run_single (p : Profile) (i : Input) (ty : Nat) (body : Bytes) (q : Parsed) (m' : Msg)
    (hent : i.msg.entries = [])
    (hdo : doEncode p (negotiate i.loc i.rem) i.msg [] = .ok (frame ty body, 0))
    (hmax : 19 + body.length ≤ (negotiate i.rem i.loc).maxLen) (hlt : 19 + body.length < 65536)
    (hparse : ∀ od, parseMessage od (negotiate i.rem i.loc) (frame ty body) = .msg q)
    (hclean : (DRes.msg q).clean = true) (hn : q.nEntries = 0)
    (htoMsgs : toMsgs q [] = [m']) (hent' : m'.entries = [])
    (hdo' : doEncode p (negotiate i.loc i.rem) m' [] = .ok (frame ty body, 0)) :
    run p i = .obs 1 (frame ty body) [.msg q] .t := by
  unfold run roundTrip
  simp only [encodeTo_single p _ i.msg _ hent hdo, List.map_cons, List.map_nil, List.flatMap_cons, List.flatMap_nil,
    List.append_nil]
  rw [decodeStream_single _ _ ty body q hmax hlt (hparse _)]
  simp only [List.all_cons, hclean, List.all_nil, Bool.and_self, if_true, List.length_cons, List.length_nil]
  -- the fixed-point probe
  have henc' := encodeTo_single p _ m' _ hent' hdo'
  obtain ⟨od, hre⟩ := reTrip_single p i.loc i.rem m' _ henc'
  have hfp : fixedPoint p i.loc i.rem [.msg q] i.msg.entries = .ok true := by
    simp only [fixedPoint, hn, Nat.zero_le, if_true, List.take_zero, htoMsgs, List.isEmpty_cons, Bool.false_eq_true,
      if_false, hre, List.flatMap_cons, List.flatMap_nil, List.append_nil]
    rw [decodeStream_single _ _ ty body q hmax hlt (hparse _)]
    simp [hclean]
  rw [hfp]

/-- the checker on a one-frame observation -/
theorem check_single (i : Input) (ty : Nat) (body : Bytes) (q : Parsed)
    (hb : buildable i = true) (henc : encodable i = true)
    (hty : expectedType i.msg = ty)
    (hmax : 19 + body.length ≤ maxFrame i) (hlt : 19 + body.length < 65536)
    (hstruct : frameLengths (frame ty body) = none)
    (hopq : ∀ frames, opaqueClause i frames = none)
    (hcontent : ∀ frames, contentClause i frames [q] = none) :
    check i (.obs 1 (frame ty body) [.msg q] .t) = .ok := by
  unfold check checkClause
  simp only [hb, Bool.not_true, Bool.false_eq_true, if_false, henc, if_true, checkClause0]
  have hframe := frameClause_ok i ty [body] hty (by simp) (by simpa using hmax) (by simpa using hlt)
    (by simpa using hstruct)
  have hsplit := splitFrames_bodies ty [body] (by simpa using hlt)
  simp only [List.flatMap_cons, List.flatMap_nil, List.append_nil, List.length_cons, List.length_nil, List.map_cons,
    List.map_nil] at hframe hsplit
  rw [hframe, hsplit]
  simp only [orElse', hopq]
  have hd := decodeClause_ok [q] 1 rfl
  simp only [List.map_cons, List.map_nil] at hd
  have hfm : ([DRes.msg q]).filterMap isMsg = [q] := by simp [isMsg]
  simp only [List.length_cons, List.length_nil, hd, hfm, hcontent, fpClause]

end Rbgp.Enc
