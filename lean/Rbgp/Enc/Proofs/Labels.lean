/-
  Rbgp.Enc.Proofs.Labels — the NLRI codecs of the label-carrying families (VPN-IPv4 / VPN-IPv6: RFC 4364 / 4659,
  labeled unicast: RFC 8277) as modelled in `Model.NStruct.encode` / `Reader.vpnDecode`, `labDecode`:
  decode ∘ encode = id for every structured NLRI with a wire form, with multi-label stacks.
-/
import Rbgp.Enc.Proofs.Bytes
namespace Rbgp.Enc

theorem labelBytes_length (l : Nat) (b : Bool) : (labelBytes l b).length = 3 := rfl

theorem stackBytes_length (ls : List Nat) : (stackBytes ls).length = 3 * ls.length := by
  induction ls with
  | nil => rfl
  | cons l rest ih =>
      cases rest with
      | nil => rfl
      | cons m rest' =>
          simp only [stackBytes, List.length_append, labelBytes_length, List.length_cons] at ih ⊢
          omega

/-- reading back a label stack: every label below 2^20, at least one label -/
theorem readLabels_stack (ls : List Nat) (rest : Bytes) (hne : ls ≠ []) (hl : ∀ l ∈ ls, l < 1048576) (fuel : Nat)
    (hf : ls.length ≤ fuel) : readLabels fuel (stackBytes ls ++ rest) = some (ls, rest) := by
  induction ls generalizing fuel with
  | nil => exact absurd rfl hne
  | cons l tl ih =>
      have hl0 := hl l (by simp)
      cases fuel with
      | zero => simp at hf
      | succ fuel =>
          cases tl with
          | nil =>
              simp only [stackBytes, labelBytes, if_true, List.cons_append, List.nil_append, readLabels]
              have h1 : ((l * 16 + 1) / 65536 % 256 * 65536 + (l * 16 + 1) / 256 % 256 * 256 + (l * 16 + 1) % 256) = l * 16 + 1 := by
                omega
              rw [h1]
              have h2 : (l * 16 + 1) % 2 = 1 := by omega
              have h3 : (l * 16 + 1) / 16 = l := by omega
              simp [h2, h3]
          | cons m tl' =>
              have ih' := ih (by simp) (fun x hx => hl x (by simp [hx])) fuel (by simp at hf ⊢; omega)
              simp only [stackBytes, labelBytes, Bool.false_eq_true, if_false, Nat.add_zero, List.cons_append,
                List.nil_append, List.append_assoc, readLabels]
              have h1 : (l * 16 / 65536 % 256 * 65536 + l * 16 / 256 % 256 * 256 + l * 16 % 256) = l * 16 := by omega
              rw [h1]
              have h2 : ¬ (l * 16 % 2 = 1) := by omega
              have h3 : l * 16 / 16 = l := by omega
              simp only [h2, if_false, h3]
              rw [ih']

/-- a route distinguisher the three RFC 4364 §4.2 types can carry -/
def RdOk (r : Rd) : Prop :=
  (r.ty = 0 ∧ r.admin < 65536 ∧ r.assigned < 4294967296) ∨ ((r.ty = 1 ∨ r.ty = 2) ∧ r.admin < 4294967296 ∧ r.assigned < 65536)

theorem rd_bytes_length (r : Rd) : r.bytes.length = 8 := by
  unfold Rd.bytes; split <;> simp

theorem readRd_bytes (r : Rd) (h : RdOk r) : readRd r.bytes = some r := by
  obtain ⟨ty, admin, assigned⟩ := r
  rcases h with ⟨h0, h1, h2⟩ | ⟨h0, h1, h2⟩
  · simp only at h0 h1 h2
    subst h0
    have e1 : beNat [admin / 256 % 256, admin % 256] = admin := by rw [beNat_pair]; omega
    have e2 : beNat (be32 assigned) = assigned := beNat_be32 h2
    simp only [readRd, Rd.bytes, if_true]
    simp [be16, beNat_pair, e1]
    simpa [be32] using e2
  · simp only at h0 h1 h2
    have hne : ty ≠ 0 := by omega
    have e0 : beNat [ty / 256 % 256, ty % 256] = ty := by rw [beNat_pair]; omega
    have e1 : beNat (be32 admin) = admin := beNat_be32 h1
    have e2 : beNat [assigned / 256 % 256, assigned % 256] = assigned := by rw [beNat_pair]; omega
    simp only [readRd, Rd.bytes, if_neg hne]
    simp [be16, e0, hne, h0, e2]
    exact ⟨by simpa [be32] using e1, e2⟩

/-- the address octets after the prefix are zero (what `mk_nlri` / the decoders produce) -/
def AddrCanon (addr : Bytes) (mask : Nat) : Prop :=
  addr.take (ceil8 mask) ++ List.replicate (addr.length - ceil8 mask) 0 = addr

instance (addr : Bytes) (mask : Nat) : Decidable (AddrCanon addr mask) := by unfold AddrCanon; exact inferInstance

/-- VPN-IPv4 / VPN-IPv6 NLRI (RFC 4364 §4.3.4, RFC 4659 §3.2): decode ∘ encode = id, any label stack depth the
    one-octet length can carry -/
theorem vpn_nlri_roundtrip (ls : List Nat) (rd : Rd) (addr : Bytes) (mask : Nat) (wd : Bool)
    (hne : ls ≠ []) (hl : ∀ l ∈ ls, l < 1048576) (hrd : RdOk rd) (hm : mask ≤ 8 * addr.length)
    (hc : AddrCanon addr mask) (hb : 24 * ls.length + 64 + mask ≤ 255) :
    ∃ bs, (NStruct.vpn ls rd addr mask).encode wd = .ok bs ∧ bs.length = 1 + 3 * ls.length + 8 + ceil8 mask ∧
      vpnDecode addr.length bs = some (.vpn ls rd addr mask) := by
  have hce : ceil8 mask ≤ addr.length := by unfold ceil8; omega
  have hlen : 0 < ls.length := by cases ls with | nil => exact absurd rfl hne | cons _ _ => simp
  refine ⟨[24 * ls.length + 64 + mask] ++ stackBytes ls ++ rd.bytes ++ addr.take (ceil8 mask), ?_, ?_, ?_⟩
  · simp only [NStruct.encode, if_neg (show ¬ 24 * ls.length + 64 + mask > 255 by omega), if_pos hce]
  · simp [stackBytes_length, rd_bytes_length, List.length_take, Nat.min_eq_left hce]; omega
  · have hrl := readLabels_stack ls (rd.bytes ++ addr.take (ceil8 mask)) hne hl
      (stackBytes ls ++ (rd.bytes ++ List.take (ceil8 mask) addr)).length
      (by simp [stackBytes_length]; omega)
    have htk : (rd.bytes ++ List.take (ceil8 mask) addr).take 8 = rd.bytes := by
      rw [List.take_append_of_le_length (by rw [rd_bytes_length]; exact Nat.le_refl 8)]
      exact List.take_of_length_le (by rw [rd_bytes_length]; exact Nat.le_refl 8)
    have hdr : (rd.bytes ++ List.take (ceil8 mask) addr).drop 8 = List.take (ceil8 mask) addr := by
      rw [List.drop_append_of_le_length (by rw [rd_bytes_length]; exact Nat.le_refl 8)]
      rw [List.drop_of_length_le (by rw [rd_bytes_length]; exact Nat.le_refl 8)]; rfl
    simp only [vpnDecode, List.singleton_append, List.cons_append, List.nil_append, List.append_assoc]
    have hL : ¬ ((24 * ls.length + 64 + mask) :: (stackBytes ls ++ (rd.bytes ++ List.take (ceil8 mask) addr))).length < 12 := by
      simp [stackBytes_length, rd_bytes_length]; omega
    rw [if_neg hL, if_neg (show ¬ 24 * ls.length + 64 + mask < 88 by omega), hrl]
    simp only
    rw [if_neg (show ¬ 24 * ls.length + 64 + mask < 24 * ls.length + 64 by omega)]
    have hp : 24 * ls.length + 64 + mask - 24 * ls.length - 64 = mask := by omega
    simp only [hp]
    rw [if_neg (show ¬ mask > 8 * addr.length by omega)]
    rw [if_neg (show ¬ (rd.bytes ++ List.take (ceil8 mask) addr).length < 8 by simp [rd_bytes_length])]
    rw [htk, readRd_bytes rd hrd]
    simp only [hdr]
    have hl2 : (List.take (ceil8 mask) addr).length = ceil8 mask := by simp [List.length_take, Nat.min_eq_left hce]
    rw [if_neg (by rw [hl2]; exact fun h => h rfl), hl2, hc]

/-- labeled unicast NLRI in MP_REACH_NLRI (RFC 8277 §2.2 / §2.3): decode ∘ encode = id -/
theorem labeled_nlri_roundtrip (ls : List Nat) (addr : Bytes) (mask : Nat)
    (hne : ls ≠ []) (hl : ∀ l ∈ ls, l < 1048576) (hm : mask ≤ 8 * addr.length)
    (hc : AddrCanon addr mask) (hb : 24 * ls.length + mask ≤ 255) :
    ∃ bs, (NStruct.lab ls addr mask).encode false = .ok bs ∧ bs.length = 1 + 3 * ls.length + ceil8 mask ∧
      labDecode addr.length true bs = some (.lab ls addr mask) := by
  have hce : ceil8 mask ≤ addr.length := by unfold ceil8; omega
  have hlen : 0 < ls.length := by cases ls with | nil => exact absurd rfl hne | cons _ _ => simp
  refine ⟨[24 * ls.length + mask] ++ stackBytes ls ++ addr.take (ceil8 mask), ?_, ?_, ?_⟩
  · simp only [NStruct.encode, Bool.false_eq_true, if_false, if_neg (show ¬ 24 * ls.length + mask > 255 by omega), if_pos hce]
  · simp [stackBytes_length, List.length_take, Nat.min_eq_left hce]; omega
  · have hrl := readLabels_stack ls (addr.take (ceil8 mask)) hne hl
      (stackBytes ls ++ List.take (ceil8 mask) addr).length (by simp [stackBytes_length]; omega)
    simp only [labDecode, List.singleton_append, List.cons_append, List.nil_append, List.append_assoc, if_true]
    have hL : ¬ ((24 * ls.length + mask) :: (stackBytes ls ++ List.take (ceil8 mask) addr)).length < 4 := by
      simp [stackBytes_length]; omega
    rw [if_neg hL, if_neg (show ¬ 24 * ls.length + mask < 24 by omega), hrl]
    simp only
    rw [if_neg (show ¬ 24 * ls.length + mask < 24 * ls.length by omega)]
    have hp : 24 * ls.length + mask - 24 * ls.length = mask := by omega
    simp only [hp]
    rw [if_neg (show ¬ mask > 8 * addr.length by omega)]
    have hl2 : (List.take (ceil8 mask) addr).length = ceil8 mask := by simp [List.length_take, Nat.min_eq_left hce]
    rw [if_neg (by rw [hl2]; exact fun h => h rfl), hl2, hc]

/-- a withdrawn labeled prefix (RFC 8277 §2.4: the compatibility field 0x800000 in place of the labels) reads back
    as the same prefix, whatever the label stack was -/
theorem labeled_withdraw_roundtrip (ls : List Nat) (addr : Bytes) (mask : Nat) (hm : mask ≤ 8 * addr.length)
    (hc : AddrCanon addr mask) (hb : 24 + mask ≤ 255) :
    ∃ bs, (NStruct.lab ls addr mask).encode true = .ok bs ∧ bs.length = 4 + ceil8 mask ∧
      labDecode addr.length false bs = some (.lab [0] addr mask) := by
  have hce : ceil8 mask ≤ addr.length := by unfold ceil8; omega
  refine ⟨[(24 + mask) % 256, 128, 0, 0] ++ addr.take (ceil8 mask), ?_, ?_, ?_⟩
  · simp only [NStruct.encode, if_true, if_pos hce]
  · simp [List.length_take, Nat.min_eq_left hce]; omega
  · have hmod : (24 + mask) % 256 = 24 + mask := Nat.mod_eq_of_lt (by omega)
    simp only [labDecode, hmod, List.cons_append, List.nil_append, Bool.false_eq_true, if_false]
    have hL : ¬ ((24 + mask) :: 128 :: 0 :: 0 :: List.take (ceil8 mask) addr).length < 4 := by simp
    rw [if_neg hL, if_neg (show ¬ 24 + mask < 24 by omega)]
    simp only [List.drop_succ_cons, List.drop_zero, List.length_singleton, Nat.mul_one]
    rw [if_neg (show ¬ 24 + mask < 24 by omega)]
    have hp : 24 + mask - 24 = mask := by omega
    simp only [hp]
    rw [if_neg (show ¬ mask > 8 * addr.length by omega)]
    have hl2 : (List.take (ceil8 mask) addr).length = ceil8 mask := by simp [List.length_take, Nat.min_eq_left hce]
    rw [if_neg (by rw [hl2]; exact fun h => h rfl), hl2, hc]

/-- beyond what the one-octet length can say the encoder refuses (repaired S7), it never wraps -/
theorem label_nlri_too_long (ls : List Nat) (rd : Rd) (addr : Bytes) (mask : Nat) :
    (24 * ls.length + 64 + mask > 255 → (NStruct.vpn ls rd addr mask).encode false = .err) ∧
    (24 * ls.length + mask > 255 → (NStruct.lab ls addr mask).encode false = .err) := by
  constructor <;> intro h <;> simp [NStruct.encode, h]

end Rbgp.Enc
