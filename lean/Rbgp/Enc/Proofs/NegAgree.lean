/-
  Rbgp.Enc.Proofs.NegAgree — `PeerCodec::negotiate` as modelled agrees with the RFC-level reading of simple
  capability sets used by the spec (`negAgree`): negotiated families, add-path direction, extended next hop.
-/
import Rbgp.Enc.Proofs.Negotiate
namespace Rbgp.Enc
open Rbgp.Enc.Spec

theorem lookup_insert {β : Type} (f g : Fam) (b : β) (m : List (Fam × β)) :
    lookup f (insert g b m) = if g = f then some b else lookup f m := by
  induction m with
  | nil => simp [insert, lookup]
  | cons kv rest ih =>
      obtain ⟨k, c⟩ := kv
      simp only [insert]
      by_cases hk : k = g
      · subst hk; simp only [if_true, lookup]; split <;> rfl
      · simp only [hk, if_false, lookup]
        by_cases hkf : k = f
        · subst hkf
          have : ¬ g = k := fun h => hk h.symm
          simp [this]
        · simp only [hkf, if_false]; exact ih

theorem lookup_modify {β : Type} (f g : Fam) (u : β → β) (m : List (Fam × β)) :
    lookup f (modify g u m) = if g = f then (lookup f m).map u else lookup f m := by
  induction m with
  | nil => simp [modify, lookup]
  | cons kv rest ih =>
      obtain ⟨k, c⟩ := kv
      simp only [modify]
      by_cases hk : k = g
      · subst hk; simp only [if_true, lookup]; split <;> simp
      · simp only [hk, if_false, lookup]
        by_cases hkf : k = f
        · subst hkf
          have : ¬ g = k := fun h => hk h.symm
          simp [this]
        · simp only [hkf, if_false]; exact ih

/-! ### the three passes of `parse` -/

def step1 (h : List (Fam × Raw)) (c : Cap) : List (Fam × Raw) :=
  match c with
  | .mp f => insert f ⟨0, false⟩ h
  | _ => h

def apInner (h : List (Fam × Raw)) (l : List (Fam × Nat)) : List (Fam × Raw) :=
  l.foldl (fun h (fm : Fam × Nat) => modify fm.1 (fun r => { r with addpath := fm.2 }) h) h

def step2 (h : List (Fam × Raw)) (c : Cap) : List (Fam × Raw) :=
  match c with
  | .ap l => apInner h l
  | _ => h

def enhInner (h : List (Fam × Raw)) (l : List (Fam × Nat)) : List (Fam × Raw) :=
  l.foldl (fun h (fa : Fam × Nat) =>
    if fa.1.afi ≠ 1 then h
    else if fa.2 = 2 then modify fa.1 (fun r => { r with extNh := true }) h else h) h

def step3 (h : List (Fam × Raw)) (c : Cap) : List (Fam × Raw) :=
  match c with
  | .enh l => enhInner h l
  | _ => h

theorem parseCaps_eq (v : List Cap) :
    parseCaps v = v.foldl step3 (v.foldl step2 (v.foldl step1 [])) := rfl

theorem lookup_fold1 (v : List Cap) (acc : List (Fam × Raw)) (f : Fam) :
    lookup f (v.foldl step1 acc) = if (mpFams v).contains f then some ⟨0, false⟩ else lookup f acc := by
  induction v generalizing acc with
  | nil => simp [mpFams]
  | cons c rest ih =>
      rw [List.foldl_cons, ih]
      cases c with
      | mp g =>
          have hm : mpFams (Cap.mp g :: rest) = g :: mpFams rest := rfl
          rw [hm]
          simp only [step1, lookup_insert, List.contains_cons]
          by_cases hc : f ∈ mpFams rest
          · have hc' : (mpFams rest).contains f = true := by simpa using hc
            simp [hc', hc]
          · have hc' : (mpFams rest).contains f = false := by simpa using hc
            simp only [hc', Bool.false_eq_true, if_false, Bool.or_false, beq_iff_eq]
            by_cases hg : g = f
            · simp [hg]
            · have : ¬ f = g := fun h => hg h.symm
              simp [hg, this]
      | _ => rfl

theorem find_none_of_not_mem (l : List (Fam × Nat)) (f : Fam) (h : f ∉ l.map (·.1)) :
    l.find? (fun x => x.1 == f) = none := by
  rw [List.find?_eq_none]
  intro x hx hxf
  apply h
  have : x.1 = f := by simpa using hxf
  rw [← this]; exact List.mem_map_of_mem hx

theorem lookup_apInner (l : List (Fam × Nat)) (hnd : (l.map (·.1)).Nodup) (h : List (Fam × Raw)) (f : Fam) :
    lookup f (apInner h l) =
      (lookup f h).map (fun r => match l.find? (fun x => x.1 == f) with
        | some x => { r with addpath := x.2 }
        | none => r) := by
  induction l generalizing h with
  | nil => simp [apInner]
  | cons fm rest ih =>
      have hnd' := (List.nodup_cons.mp hnd).2
      have hni := (List.nodup_cons.mp hnd).1
      show lookup f (apInner (modify fm.1 (fun r => { r with addpath := fm.2 }) h) rest) = _
      rw [ih hnd', lookup_modify]
      by_cases hf : fm.1 = f
      · subst hf
        rw [find_none_of_not_mem rest fm.1 hni]
        simp only [if_true, List.find?_cons, beq_self_eq_true]
        cases lookup fm.1 h <;> rfl
      · have : (fm.1 == f) = false := by simpa using hf
        simp only [hf, if_false, List.find?_cons, this]

theorem fold2_of_no_ap (v : List Cap) (h : List (Fam × Raw)) (hno : apCaps v = []) : v.foldl step2 h = h := by
  induction v generalizing h with
  | nil => rfl
  | cons c rest ih =>
      cases c with
      | ap l => simp [apCaps] at hno
      | _ => exact ih h (by simpa [apCaps] using hno)

theorem lookup_fold2 (v : List Cap) (hs : (apCaps v).length ≤ 1)
    (hnd : ∀ l ∈ apCaps v, (l.map (·.1)).Nodup) (h : List (Fam × Raw)) (f : Fam) :
    lookup f (v.foldl step2 h) =
      (lookup f h).map (fun r => match (apCaps v).flatten.find? (fun x => x.1 == f) with
        | some x => { r with addpath := x.2 }
        | none => r) := by
  induction v generalizing h with
  | nil => simp [apCaps]
  | cons c rest ih =>
      cases c with
      | ap l =>
          have hap : apCaps (Cap.ap l :: rest) = l :: apCaps rest := rfl
          rw [hap] at hs hnd ⊢
          have hrest : apCaps rest = [] := by
            cases hr : apCaps rest with
            | nil => rfl
            | cons _ _ => rw [hr] at hs; simp at hs
          rw [List.foldl_cons, fold2_of_no_ap rest _ hrest, hrest]
          simp only [step2, List.flatten_cons, List.flatten_nil, List.append_nil]
          exact lookup_apInner l (hnd l (by simp)) h f
      | _ => exact ih (by simpa [apCaps] using hs) (by simpa [apCaps] using hnd) h

theorem lookup_enhInner (l : List (Fam × Nat)) (h : List (Fam × Raw)) (f : Fam) :
    lookup f (enhInner h l) =
      (lookup f h).map (fun r => { r with extNh := r.extNh || (f.afi == 1 && l.any (fun x => x.1 == f && x.2 == 2)) }) := by
  induction l generalizing h with
  | nil => simp [enhInner]
  | cons fa rest ih =>
      have hstep : enhInner h (fa :: rest) = enhInner (if fa.1.afi ≠ 1 then h
          else if fa.2 = 2 then modify fa.1 (fun r => { r with extNh := true }) h else h) rest := rfl
      rw [hstep, ih]
      by_cases ha1 : fa.1.afi = 1
      · have hna : ¬ fa.1.afi ≠ 1 := by simpa using ha1
        rw [if_neg hna]
        by_cases h2 : fa.2 = 2
        · rw [if_pos h2, lookup_modify]
          by_cases hf : fa.1 = f
          · subst hf
            rw [if_pos rfl]
            cases lookup fa.1 h <;> simp [ha1, h2]
          · have : (fa.1 == f) = false := by simpa using hf
            rw [if_neg hf]
            simp [this]
        · rw [if_neg h2]
          have : (fa.2 == 2) = false := by simpa using h2
          simp [this]
      · have hna : fa.1.afi ≠ 1 := ha1
        rw [if_pos hna]
        by_cases hf : fa.1 = f
        · subst hf
          have : (fa.1.afi == 1) = false := by simpa using ha1
          simp [this]
        · have : (fa.1 == f) = false := by simpa using hf
          simp [this]

theorem fold3_of_no_enh (v : List Cap) (h : List (Fam × Raw)) (hno : enhCaps v = []) : v.foldl step3 h = h := by
  induction v generalizing h with
  | nil => rfl
  | cons c rest ih =>
      cases c with
      | enh l => simp [enhCaps] at hno
      | _ => exact ih h (by simpa [enhCaps] using hno)

theorem lookup_fold3 (v : List Cap) (hs : (enhCaps v).length ≤ 1) (h : List (Fam × Raw)) (f : Fam) :
    lookup f (v.foldl step3 h) =
      (lookup f h).map (fun r => { r with extNh := r.extNh || (f.afi == 1 && hasEnh v f) }) := by
  induction v generalizing h with
  | nil => simp [hasEnh, enhCaps]
  | cons c rest ih =>
      cases c with
      | enh l =>
          have hen : enhCaps (Cap.enh l :: rest) = l :: enhCaps rest := rfl
          have hrest : enhCaps rest = [] := by
            rw [hen] at hs
            cases hr : enhCaps rest with
            | nil => rfl
            | cons _ _ => rw [hr] at hs; simp at hs
          rw [List.foldl_cons, fold3_of_no_enh rest _ hrest]
          simp only [step3, hasEnh, hen, hrest, List.flatten_cons, List.flatten_nil, List.append_nil]
          exact lookup_enhInner l h f
      | mp _ => exact ih hs h
      | rr => exact ih hs h
      | em => exact ih hs h
      | gr _ _ _ => exact ih hs h
      | as4 _ => exact ih hs h
      | ap _ => exact ih hs h
      | err => exact ih hs h
      | llgr _ => exact ih hs h
      | fqdn _ _ => exact ih hs h
      | unk _ _ => exact ih hs h

/-- closed form of the per-family table of one side -/
theorem lookup_parseCaps (v : List Cap) (hs : simpleCaps v = true) (f : Fam) :
    lookup f (parseCaps v) =
      if hasMp v f then some ⟨apMode v f, f.afi == 1 && hasEnh v f⟩ else none := by
  simp only [simpleCaps, Bool.and_eq_true, decide_eq_true_eq, List.all_eq_true] at hs
  obtain ⟨⟨⟨⟨_, hap1⟩, hapnd⟩, hen1⟩, _⟩ := hs
  rw [parseCaps_eq, lookup_fold3 v hen1, lookup_fold2 v hap1 (fun l hl => nodup_iff'.mp (hapnd l hl)), lookup_fold1]
  simp only [lookup, hasMp]
  by_cases hm : (mpFams v).contains f = true
  · simp only [hm, if_true, Option.map, apMode]
    cases (apCaps v).flatten.find? (fun x => x.1 == f) <;> simp
  · have hnm : f ∉ mpFams v := by simpa using hm
    have : (mpFams v).contains f = false := by simpa using hm
    simp [this, hnm]
where
  nodup_iff' {l : List Fam} : nodup l = true ↔ l.Nodup := by
    induction l with
    | nil => simp [nodup]
    | cons x xs ih => simp [nodup, ih, List.nodup_cons]

/-! ### unique keys -/

def keys {β : Type} (m : List (Fam × β)) : List Fam := m.map (·.1)

theorem keys_insert {β : Type} (g : Fam) (b : β) (m : List (Fam × β)) :
    keys (insert g b m) = if g ∈ keys m then keys m else keys m ++ [g] := by
  induction m with
  | nil => simp [insert, keys]
  | cons kv rest ih =>
      obtain ⟨k, c⟩ := kv
      simp only [insert]
      by_cases hk : k = g
      · subst hk; simp [keys]
      · simp only [hk, if_false, keys, List.map_cons, List.mem_cons] at ih ⊢
        have hgk : ¬ g = k := fun h => hk h.symm
        simp only [hgk, false_or]
        rw [ih]
        by_cases hmem : g ∈ List.map (fun x => x.1) rest
        · simp [hmem]
        · simp [hmem]

theorem keys_modify {β : Type} (g : Fam) (u : β → β) (m : List (Fam × β)) : keys (modify g u m) = keys m := by
  induction m with
  | nil => rfl
  | cons kv rest ih =>
      obtain ⟨k, c⟩ := kv
      simp only [modify]
      split
      · simp [keys]
      · simp only [keys, List.map_cons] at ih ⊢; rw [ih]

theorem nodup_keys_insert {β : Type} (g : Fam) (b : β) (m : List (Fam × β)) (h : (keys m).Nodup) :
    (keys (insert g b m)).Nodup := by
  rw [keys_insert]
  split
  · exact h
  · rename_i hg
    rw [List.nodup_append]
    refine ⟨h, by simp, ?_⟩
    intro a ha b hb
    simp only [List.mem_singleton] at hb
    subst hb
    intro hab; subst hab; exact hg ha

theorem keys_apInner (h : List (Fam × Raw)) (l : List (Fam × Nat)) : keys (apInner h l) = keys h := by
  induction l generalizing h with
  | nil => rfl
  | cons fm rest ih =>
      show keys (apInner (modify fm.1 _ h) rest) = _
      rw [ih, keys_modify]

theorem keys_enhInner (h : List (Fam × Raw)) (l : List (Fam × Nat)) : keys (enhInner h l) = keys h := by
  induction l generalizing h with
  | nil => rfl
  | cons fa rest ih =>
      have hstep : enhInner h (fa :: rest) = enhInner (if fa.1.afi ≠ 1 then h
          else if fa.2 = 2 then modify fa.1 (fun r => { r with extNh := true }) h else h) rest := rfl
      rw [hstep, ih]
      split
      · rfl
      · split
        · exact keys_modify _ _ _
        · rfl

theorem nodup_keys_parseCaps (v : List Cap) : (keys (parseCaps v)).Nodup := by
  rw [parseCaps_eq]
  have h1 : ∀ (w : List Cap) (acc : List (Fam × Raw)), (keys acc).Nodup → (keys (w.foldl step1 acc)).Nodup := by
    intro w
    induction w with
    | nil => intro acc h; exact h
    | cons c rest ih =>
        intro acc h
        rw [List.foldl_cons]
        apply ih
        cases c with
        | mp g => exact nodup_keys_insert g _ acc h
        | _ => exact h
  have h2 : ∀ (w : List Cap) (acc : List (Fam × Raw)), keys (w.foldl step2 acc) = keys acc := by
    intro w
    induction w with
    | nil => intro acc; rfl
    | cons c rest ih =>
        intro acc
        rw [List.foldl_cons, ih]
        cases c with
        | ap l => exact keys_apInner acc l
        | _ => rfl
  have h3 : ∀ (w : List Cap) (acc : List (Fam × Raw)), keys (w.foldl step3 acc) = keys acc := by
    intro w
    induction w with
    | nil => intro acc; rfl
    | cons c rest ih =>
        intro acc
        rw [List.foldl_cons, ih]
        cases c with
        | enh l => exact keys_enhInner acc l
        | _ => rfl
  rw [h3, h2]
  exact h1 v [] (by simp [keys])

theorem mem_iff_lookup {β : Type} (m : List (Fam × β)) (h : (keys m).Nodup) (f : Fam) (b : β) :
    (f, b) ∈ m ↔ lookup f m = some b := by
  induction m with
  | nil => simp [lookup]
  | cons kv rest ih =>
      obtain ⟨k, c⟩ := kv
      simp only [keys, List.map_cons, List.nodup_cons] at h
      obtain ⟨hk, hr⟩ := h
      simp only [List.mem_cons, lookup, Prod.mk.injEq]
      by_cases hkf : k = f
      · subst hkf
        simp only [if_true, Option.some.injEq, true_and]
        constructor
        · intro hh
          rcases hh with hh | hh
          · exact hh.symm
          · exfalso; apply hk; exact List.mem_map_of_mem (f := (·.1)) hh
        · intro hh; exact Or.inl hh.symm
      · simp only [hkf, if_false]
        have : ¬ f = k := fun h => hkf h.symm
        simp only [this, false_and, false_or]
        exact ih hr

/-! ### `negAgree` -/

theorem bit_tests (n : Nat) : bit0 n = (n % 2 == 1) ∧ bit1 n = (n / 2 % 2 == 1) := ⟨rfl, rfl⟩

theorem negAgree_of (i : Input) (f : Fam) (hl : simpleCaps i.loc = true) (hr : simpleCaps i.rem = true)
    (hf : famNegotiated i f = true) : negAgree i f = true := by
  simp only [famNegotiated, Bool.and_eq_true] at hf
  obtain ⟨hfl, hfr⟩ := hf
  have pl := lookup_parseCaps i.loc hl
  have pr := lookup_parseCaps i.rem hr
  simp only [negAgree, Bool.and_eq_true, beq_iff_eq]
  refine ⟨⟨?_, ?_⟩, ?_⟩
  · -- the family is in the peer's table
    simp only [rxOf, lookup_fams, pl, pr, hfl, hfr, if_true, both]
    rfl
  · -- add-path direction
    simp only [Codec.addpathTx, lookup_fams, pl, pr, hfl, hfr, if_true, both, addPathTx, famNegotiated,
      Bool.and_self, Bool.true_and, bit0, bit1]
  · -- extended next hop: in force for IPv4 unicast iff both sides listed the tuple (1, 1, 2)
    have ha : (Fam.ipv4.afi == 1) = true := rfl
    simp only [Codec.extNh, lookup_fams, pl, pr, extNhNegotiated, enhNegotiated, famNegotiated]
    cases h1 : hasMp i.loc Fam.ipv4 <;> cases h2 : hasMp i.rem Fam.ipv4 <;>
      simp [both, ha, Bool.and_comm, Bool.and_left_comm]

end Rbgp.Enc
