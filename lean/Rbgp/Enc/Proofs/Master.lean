/-
  Rbgp.Enc.Proofs.Master — the reference checker accepts every model run on the domain of the master
  theorem (UPDATE part).
-/
import Rbgp.Enc.Proofs.Dom
import Rbgp.Enc.Proofs.TwoByteBlock
import Rbgp.Enc.Proofs.NegAgree
namespace Rbgp.Enc
open Rbgp.Enc.Spec

/-- entries of the model families are never judged by the Flow Specification framing clause -/
theorem flowBad_ip (f : Fam) (v6 : Bool) (es : List Entry) (hes : ∀ e ∈ es, IpEntryOk v6 e) : flowBad f es = false := by
  have : es.any entryFlowBad = false := by
    rw [List.any_eq_false]
    intro e he
    obtain ⟨addr, mask, hn, _⟩ := hes e he
    simp [entryFlowBad, hn]
  simp [flowBad, this]

/-- generic: announcements -/
theorem UpdFamFp.check_reach_ok {p : Profile} {i : Input}
    (f : Fam) (nh : Nh) (attrs : List Attr) (es : List Entry) (U : UpdFamFp p i.loc i.rem (.reach f (some nh) attrs es))
    (legacy v6 ap : Bool) (fin : List Attr)
    (hmsg : i.msg = .reach f (some nh) attrs es) (hne : es ≠ []) (hS : U.S es)
    (hb : buildable i = true) (henc : encodable i = true)
    (hmaxF : (negotiate i.rem i.loc).maxLen = maxFrame i)
    (hQ : ∀ r, U.Q r = qReach legacy f nh fin ((r.take (U.N r)).map (decE v6 ap)))
    (hes : ∀ e ∈ es, IpEntryOk v6 e) (hp : ap = false → ∀ e ∈ es, e.pid = 0)
    (hfin : sortAttrs (fin.map canonAttr) = sortAttrs (attrs.map canonAttr)) :
    check i (run p i) = .ok ∧ ∃ n s dec, run p i = .obs n s dec .t := by
  apply U.check_ok hmsg es rfl hne hS hb henc hmaxF (by rw [hmsg]; rfl)
  · intro frames
    simp only [opaqueClause, hmsg, flowBad_ip f v6 es hes, Bool.false_eq_true, if_false]
    rw [opaqueRegion_ip v6 _ es hes]
  · intro frames
    have hps : chunksG U.Q U.N es =
        (chunksG (fun r => r.take (U.N r)) U.N es).map (fun sl => qReach legacy f nh fin (sl.map (decE v6 ap))) := by
      rw [chunksG_map]
      congr 1
      funext r
      exact hQ r
    simp only [contentClause, hmsg]
    rw [hps, checkUpdate_reach_ok i f nh attrs es legacy v6 ap fin _ (chunkSlices_flatten_S U.N U.S U.hdrop U.hpos es hS) hes hp hfin]

/-- generic: withdrawals -/
theorem UpdFamFp.check_unreach_ok {p : Profile} {i : Input}
    (f : Fam) (es : List Entry) (U : UpdFamFp p i.loc i.rem (.unreach f es)) (legacy v6 ap : Bool)
    (hmsg : i.msg = .unreach f es) (hne : es ≠ []) (hS : U.S es)
    (hb : buildable i = true) (henc : encodable i = true)
    (hmaxF : (negotiate i.rem i.loc).maxLen = maxFrame i)
    (hQ : ∀ r, U.Q r = qUnreach legacy f ((r.take (U.N r)).map (decE v6 ap)))
    (hes : ∀ e ∈ es, IpEntryOk v6 e) (hp : ap = false → ∀ e ∈ es, e.pid = 0) :
    check i (run p i) = .ok ∧ ∃ n s dec, run p i = .obs n s dec .t := by
  apply U.check_ok hmsg es rfl hne hS hb henc hmaxF (by rw [hmsg]; rfl)
  · intro frames
    simp only [opaqueClause, hmsg, flowBad_ip f v6 es hes, Bool.false_eq_true, if_false]
    rw [opaqueRegion_ip v6 _ es hes]
  · intro frames
    have hps : chunksG U.Q U.N es =
        (chunksG (fun r => r.take (U.N r)) U.N es).map (fun sl => qUnreach legacy f (sl.map (decE v6 ap))) := by
      rw [chunksG_map]
      congr 1
      funext r
      exact hQ r
    simp only [contentClause, hmsg]
    rw [hps, checkUpdate_unreach_ok i f es legacy v6 ap _ (chunkSlices_flatten_S U.N U.S U.hdrop U.hpos es hS) hes hp]

/-! ### withdrawals -/

theorem fam_eq_ipv4 {f : Fam} (h : (f == Fam.ipv4) = true) : f = Fam.ipv4 := by
  simpa using h

theorem maxLen_enc (i : Input) : (negotiate i.loc i.rem).maxLen = maxFrame i := by
  have := negotiate_maxLen i.loc i.rem i.msg
  cases i; exact this

theorem maxLen_peer (i : Input) : (negotiate i.rem i.loc).maxLen = maxFrame i := by
  rw [negotiate_maxLen_comm i.loc i.rem]; exact maxLen_enc i

theorem master_unreach (p : Profile) (i : Input) (h : domUnreach i = true) :
    check i (run p i) = .ok ∧ ∃ n s dec, run p i = .obs n s dec .t := by
  unfold domUnreach at h
  cases hm : i.msg with
  | «open» a b c d => simp [hm] at h
  | reach f nh attrs es => simp [hm] at h
  | eor f => simp [hm] at h
  | notif c s d => simp [hm] at h
  | keepalive => simp [hm] at h
  | rr f => simp [hm] at h
  | unreach f es =>
      simp only [hm, Bool.and_eq_true, Bool.not_eq_true'] at h
      obtain ⟨⟨⟨hb, henc⟩, hne⟩, hip⟩ := h
      have hne' : es ≠ [] := by intro hc; rw [hc] at hne; cases hne
      have hall := henc
      simp only [encodable, hm, frameBase] at hall
      obtain ⟨v6, hv6⟩ := Option.isSome_iff_exists.mp hip
      -- from buildable
      have hb' := hb
      simp only [buildable, hm, Bool.and_eq_true] at hb'
      obtain ⟨⟨⟨⟨hsl, hsr⟩, _⟩, _⟩, ⟨⟨⟨hfok, hfneg⟩, _⟩, hents⟩⟩ := hb'
      have hneg := negAgree_of i f hsl hsr hfneg
      simp only [negAgree, Bool.and_eq_true, beq_iff_eq] at hneg
      obtain ⟨⟨hrx, hap⟩, hext⟩ := hneg
      simp only [famOk, Bool.and_eq_true, decide_eq_true_eq] at hfok
      have hes : ∀ e ∈ es, IpEntryOk v6 e := fun e he =>
        (entryOk_ip i f v6 e hv6 (List.all_eq_true.mp hents e he)).1
      have hpid : (negotiate i.loc i.rem).addpathTx f = false → ∀ e ∈ es, e.pid = 0 := by
        intro h0 e he
        exact (entryOk_ip i f v6 e hv6 (List.all_eq_true.mp hents e he)).2 (by rw [← hap]; exact h0)
      have hmaxF : (negotiate i.rem i.loc).maxLen = maxFrame i := maxLen_peer i
      have hmaxE : (negotiate i.loc i.rem).maxLen = maxFrame i := maxLen_enc i
      have hc := codecPair i.loc i.rem f hrx
      by_cases hleg : (f == Fam.ipv4 && !extNhNegotiated i) = true
      · -- legacy IPv4 withdraw
        simp only [Bool.and_eq_true, Bool.not_eq_true'] at hleg
        have hf4 := fam_eq_ipv4 hleg.1
        subst hf4
        have hextF : (negotiate i.loc i.rem).extNh = false := by rw [hext]; exact hleg.2
        have hv : v6 = false := by
          have : isIpFam Fam.ipv4 = some false := rfl
          rw [this] at hv6; injection hv6 with h'; exact h'.symm
        subst hv
        have hfit' : FitS (negotiate i.loc i.rem).maxLen 2 ((negotiate i.loc i.rem).addpathTx Fam.ipv4) 21 es := by
          simp only [hleg.1, hleg.2, Bool.not_false, Bool.and_self, if_true] at hall
          rw [hmaxE, hap]
          exact fitS_of_all i Fam.ipv4 false es _ 2 21 23 _ hall hes rfl
        exact UpdFamFp.check_unreach_ok Fam.ipv4 es (unreachLegacyFp p i.loc i.rem es hextF hc)
          true false ((negotiate i.loc i.rem).addpathTx Fam.ipv4) hm hne' ⟨hes, hfit'⟩ hb henc hmaxF
          (fun r => by simp [unreachLegacyFp, unreachLegacyFam, qUnreach])
          hes hpid
      · -- MP_UNREACH_NLRI
        have hmp : ¬ (f = Fam.ipv4 ∧ (!(negotiate i.loc i.rem).extNh) = true) := by
          intro ⟨h1, h2⟩
          apply hleg
          rw [hext] at h2
          simp [h1, h2]
        have hfit' : FitS (negotiate i.loc i.rem).maxLen 0 ((negotiate i.loc i.rem).addpathTx f) (23 + 4 + 3) es := by
          simp only [hleg, Bool.false_eq_true, if_false] at hall
          rw [hmaxE, hap]
          exact fitS_of_all i f v6 es _ 0 (23 + 4 + 3) (23 + 4 + 3) _ hall hes rfl
        exact UpdFamFp.check_unreach_ok f es (unreachMpFp p i.loc i.rem f v6 es hmp hv6 hfok.1 hfok.2 hc)
          false v6 ((negotiate i.loc i.rem).addpathTx f) hm hne' ⟨hes, hfit'⟩ hb henc hmaxF
          (fun r => by simp [unreachMpFp, unreachMpFam, qUnreach])
          hes hpid

/-! ### announcements -/

theorem sortAttrs_wire (attrs : List Attr) (h : ∀ a ∈ attrs, attrOk a = true) :
    sortAttrs ((attrs.map wireAttr).map canonAttr) = sortAttrs (attrs.map canonAttr) := by
  congr 1
  rw [List.map_map]
  apply List.map_congr_left
  intro a ha
  exact canonAttr_wireAttr a (h a ha)

theorem master_reach (p : Profile) (i : Input) (h : domReach i = true) :
    check i (run p i) = .ok ∧ ∃ n s dec, run p i = .obs n s dec .t := by
  unfold domReach at h
  cases hm : i.msg with
  | «open» a b c d => simp [hm] at h
  | unreach f es => simp [hm] at h
  | eor f => simp [hm] at h
  | notif c s d => simp [hm] at h
  | keepalive => simp [hm] at h
  | rr f => simp [hm] at h
  | reach f nho attrs es =>
    cases nho with
    | none => simp [hm] at h
    | some nh =>
      simp only [hm, Bool.and_eq_true, Bool.not_eq_true', Bool.or_eq_true] at h
      obtain ⟨⟨⟨⟨⟨hb, henc⟩, hcarr⟩, hne⟩, hip⟩, hnhc⟩ := h
      have hne' : es ≠ [] := by intro hc; rw [hc] at hne; cases hne
      have hall := henc
      simp only [encodable, hm] at hall
      rw [Bool.and_eq_true] at hall
      obtain ⟨hall1, hall2⟩ := hall
      simp only [frameBase, hm, decide_eq_true_eq] at hall1 hall2
      have hemp : es.isEmpty = false := by cases es <;> simp_all
      obtain ⟨v6, hv6⟩ := Option.isSome_iff_exists.mp hip
      -- from buildable
      have hb' := hb
      simp only [buildable, hm, Bool.and_eq_true, Bool.or_eq_true] at hb'
      obtain ⟨⟨⟨⟨hsl, hsr⟩, _⟩, _⟩, ⟨⟨⟨⟨⟨⟨⟨⟨⟨hfok, hfneg⟩, hnhb⟩, hattrs⟩, hnd⟩, hres⟩, _⟩, hc1⟩, hc2⟩, hents⟩⟩ := hb'
      have hneg := negAgree_of i f hsl hsr hfneg
      simp only [negAgree, Bool.and_eq_true, beq_iff_eq] at hneg
      obtain ⟨⟨hrx, hap⟩, hext⟩ := hneg
      simp only [famOk, Bool.and_eq_true, decide_eq_true_eq] at hfok
      have h12' : hasCode 1 attrs = true ∧ hasCode 2 attrs = true := ⟨hc1, hc2⟩
      have hok : AttrsOk attrs := attrsOk_of attrs hattrs hnd hres
      have hes : ∀ e ∈ es, IpEntryOk v6 e := fun e he =>
        (entryOk_ip i f v6 e hv6 (List.all_eq_true.mp hents e he)).1
      have hpid : (negotiate i.loc i.rem).addpathTx f = false → ∀ e ∈ es, e.pid = 0 := by
        intro h0 e he
        exact (entryOk_ip i f v6 e hv6 (List.all_eq_true.mp hents e he)).2 (by rw [← hap]; exact h0)
      have hmaxF : (negotiate i.rem i.loc).maxLen = maxFrame i := maxLen_peer i
      have hmaxE : (negotiate i.loc i.rem).maxLen = maxFrame i := maxLen_enc i
      have hc := codecPair i.loc i.rem f hrx
      have htwoPE : (negotiate i.rem i.loc).twoByte = (negotiate i.loc i.rem).twoByte := negotiate_twoByte_comm i.loc i.rem
      have h16 := negotiate_maxLen_le i.loc i.rem
      -- the attribute block `ab` the encoder writes, and the attribute list `fin` the peer ends up with
      have core : ∀ (ab : Bytes) (fin : List Attr) (P : AttrPart (negotiate i.rem i.loc).twoByte ab fin)
          (hencA : ab.length < 65536 → encodeAttrs p (negotiate i.loc i.rem).twoByte attrs 0 = .ok (ab, ab.length))
          (hencF : ab.length < 65536 → encodeAttrs p (negotiate i.loc i.rem).twoByte fin 0 = .ok (ab, ab.length))
          (hc1f : hasCode 1 fin = true) (hc2f : hasCode 2 fin = true)
          (hfin : sortAttrs (fin.map canonAttr) = sortAttrs (attrs.map canonAttr))
          (habl : ab.length = (attrs.map (attrWireSize (!as4Both i.loc i.rem))).sum),
          check i (run p i) = .ok ∧ ∃ n s dec, run p i = .obs n s dec .t := by
        intro ab fin P hencA hencF hc1f hc2f hfin habl
        by_cases hleg : (f == Fam.ipv4 && !extNhNegotiated i) = true
        · -- legacy IPv4: NEXT_HOP attribute + NLRI section
          have hleg' := hleg
          simp only [Bool.and_eq_true, Bool.not_eq_true'] at hleg'
          have hf4 := fam_eq_ipv4 hleg'.1
          subst hf4
          have hextF : (negotiate i.loc i.rem).extNh = false := by rw [hext]; exact hleg'.2
          have hv : v6 = false := by
            have : isIpFam Fam.ipv4 = some false := rfl
            rw [this] at hv6; injection hv6 with h'; exact h'.symm
          subst hv
          have hfit' : FitS (negotiate i.loc i.rem).maxLen 0 ((negotiate i.loc i.rem).addpathTx Fam.ipv4)
              (23 + (ab.length + 7)) es := by
            simp only [hleg, if_true, hemp, Bool.false_eq_true, if_false] at hall2
            rw [hmaxE, hap, habl]
            exact fitS_of_all i Fam.ipv4 false es _ 0 _ _ _ hall2 hes (by omega)
          have hbase : 23 + (ab.length + 7) ≤ 65535 := by
            simp only [hleg, if_true, hemp, Bool.false_eq_true, if_false] at hall1
            have := hall1
            rw [← hmaxE] at this
            omega
          -- the next hop is an IPv4 address
          obtain ⟨⟨_, hnhok⟩, hnhv4⟩ := hnhb
          have hafi : (Fam.ipv4.afi == 1) = true := rfl
          have hne4 : enhNegotiated i Fam.ipv4 = false := hleg'.2
          rw [if_pos hafi, hne4] at hnhv4
          cases nh with
          | v6 a => simp at hnhv4
          | v6ll g l => simp at hnhv4
          | v4 a =>
            have ha : a.length = 4 := by
              simp only [nhOk, Bool.and_eq_true, beq_iff_eq] at hnhok; exact hnhok.1
            have hencA := hencA (by omega)
            have hencF := hencF (by omega)
            exact UpdFamFp.check_reach_ok Fam.ipv4 (.v4 a) attrs es
              (reachLegacyFp p i.loc i.rem attrs es a ab fin P hencA hencF
                hc1f hc2f hextF ha hc)
              true false ((negotiate i.loc i.rem).addpathTx Fam.ipv4) fin hm hne' ⟨hes, hfit'⟩ hb henc hmaxF
              (fun r => by simp [reachLegacyFp, reachLegacyFam, qReach])
              hes hpid hfin
        · -- MP_REACH_NLRI
          have hmp : ¬ (f = Fam.ipv4 ∧ (!(negotiate i.loc i.rem).extNh) = true) := by
            intro ⟨h1, h2⟩
            apply hleg
            rw [hext] at h2
            simp [h1, h2]
          have hnv4 : nhIsV4 nh = false ∨ nhAsIs f = true := by
            rcases hnhc with (h | h) | h
            · exfalso; apply hleg; simp [h.1, h.2]
            · exact Or.inl h
            · exact Or.inr h
          have hlegF : (f == Fam.ipv4 && !extNhNegotiated i) = false := by
            cases hh : (f == Fam.ipv4 && !extNhNegotiated i) with
            | true => exact absurd hh hleg
            | false => rfl
          have hnhok : nhOk nh = true := hnhb.1.2
          have hnhmp : NhMp f nh := nhMp_of f nh hnhok hnv4
          have hvpn : isVpn f = false := (nhPart_ip f v6 hv6).2
          have hfit' : FitS (negotiate i.loc i.rem).maxLen 0 ((negotiate i.loc i.rem).addpathTx f)
              (23 + ab.length + 4 + (5 + nh.bytes.length)) es := by
            simp only [hlegF, Bool.false_eq_true, if_false, nhWireSize, hvpn] at hall2
            rw [hmaxE, hap, habl]
            exact fitS_of_all i f v6 es _ 0 _ _ _ hall2 hes (by omega)
          have hbase : 23 + ab.length + 4 + (5 + nh.bytes.length) ≤ 65535 := by
            simp only [hlegF, Bool.false_eq_true, if_false, nhWireSize, hvpn] at hall1
            have := hall1
            rw [← hmaxE] at this
            omega
          have hencA := hencA (by omega)
          have hencF := hencF (by omega)
          exact UpdFamFp.check_reach_ok f nh attrs es
            (reachMpFp p i.loc i.rem f v6 attrs es nh ab fin P hencA hencF
              hc1f hc2f hmp hv6 hfok.1 hfok.2 hnhmp hc)
            false v6 ((negotiate i.loc i.rem).addpathTx f) fin hm hne' ⟨hes, hfit'⟩ hb henc hmaxF
            (fun r => by simp [reachMpFp, reachMpFam, qReach])
            hes hpid hfin
      -- the two AS widths
      by_cases has4 : as4Both i.loc i.rem = true
      · have htwoE : (negotiate i.loc i.rem).twoByte = false := by rw [negotiate_twoByte, has4]; rfl
        have htwoP : (negotiate i.rem i.loc).twoByte = false := by rw [htwoPE]; exact htwoE
        have hok' := attrsOk_wire attrs hok
        refine core (attrBlock4 attrs) (attrs.map wireAttr) (htwoP ▸ attrPart4 attrs hok h12'.1 h12'.2) ?_ ?_
          (by rw [hasCode_wire]; exact h12'.1) (by rw [hasCode_wire]; exact h12'.2)
          (sortAttrs_wire attrs (fun a ha => (hok.1 a ha).1)) (by rw [has4]; exact attrBlock4_length attrs)
        · intro hsz
          rw [htwoE]
          have := encodeAttrs_four p attrs 0 (fun a ha => (hok.1 a ha).1) (by omega)
          simpa using this
        · intro hsz
          rw [htwoE]
          have := encodeAttrs_four p (attrs.map wireAttr) 0 (fun a ha => (hok'.1 a ha).1)
            (by rw [attrBlock4_wire]; omega)
          simpa [attrBlock4_wire] using this
      · have has4f : as4Both i.loc i.rem = false := by simpa using has4
        have htwoE : (negotiate i.loc i.rem).twoByte = true := by rw [negotiate_twoByte, has4f]; rfl
        have htwoP : (negotiate i.rem i.loc).twoByte = true := by rw [htwoPE]; exact htwoE
        -- the RFC 6793 limits are excluded by the domain
        have hcar : ∀ a ∈ attrs, Carriable a := by
          rcases hcarr with h | h
          · rw [has4f] at h; cases h
          · intro a ha; exact (carriableB_iff a).mp (List.all_eq_true.mp h a ha)
        have hok2 := attrsOk_fin2 attrs hok
        have hallOk : ∀ a ∈ attrs, attrOk a = true := fun a ha => (hok.1 a ha).1
        refine core (attrBlock2 attrs) (attrs.map fin2) (htwoP ▸ attrPart2 attrs hok hcar h12'.1 h12'.2) ?_ ?_
          (by rw [hasCode_fin2]; exact h12'.1) (by rw [hasCode_fin2]; exact h12'.2)
          (sortAttrs_fin2 attrs) (by rw [has4f]; exact attrBlock2_length attrs hallOk)
        · intro hsz
          rw [htwoE]
          have := encodeAttrs_two p attrs 0 hallOk (by omega)
          simpa using this
        · intro hsz
          rw [htwoE]
          have := encodeAttrs_two p (attrs.map fin2) 0 (fun a ha => (hok2.1 a ha).1)
            (by rw [attrBlock2_fin2]; omega)
          simpa [attrBlock2_fin2] using this

end Rbgp.Enc
