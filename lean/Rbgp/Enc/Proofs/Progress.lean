/-
  Rbgp.Enc.Proofs.Progress — unconditional facts about the repaired chunk loop: `do_encode` never returns a
  zero count for a non-empty UPDATE (it refuses instead), hence whenever `encode_to` succeeds the per-frame
  counts partition the entry list: no prefix is dropped, duplicated or reordered, for ANY input.
-/
import Rbgp.Enc.Proofs.Stream
namespace Rbgp.Enc

theorem Out.bind_eq_ok {α β} {x : Out α} {f : α → Out β} {b : β} (h : (x >>= f) = .ok b) :
    ∃ a, x = .ok a ∧ f a = .ok b := by
  cases x with
  | ok a => exact ⟨a, rfl, h⟩
  | panic => cases h
  | err => cases h

theorem mpReachEncode_pos (p : Profile) (c : Codec) (cur : Nat) (f : Fam) (es : List Entry) (nh : Option Nh)
    (r : Bytes × Nat × Nat) (h : mpReachEncode p c cur f es nh = .ok r) (hes : es ≠ []) : r.2.2 ≠ 0 := by
  unfold mpReachEncode at h
  obtain ⟨⟨nb, n⟩, h1, h2⟩ := Out.bind_eq_ok h
  obtain ⟨inner, _, h3⟩ := Out.bind_eq_ok h2
  simp only [Out.pure_eq, Out.ok.injEq] at h3
  rw [← h3]
  exact putEntries_pos _ _ _ _ _ nb n h1 hes

theorem mpUnreachEncode_pos (p : Profile) (c : Codec) (cur : Nat) (f : Fam) (es : List Entry)
    (r : Bytes × Nat × Nat) (h : mpUnreachEncode p c cur f es = .ok r) (hes : es ≠ []) : r.2.2 ≠ 0 := by
  unfold mpUnreachEncode at h
  obtain ⟨⟨nb, n⟩, h1, h2⟩ := Out.bind_eq_ok h
  obtain ⟨inner, _, h3⟩ := Out.bind_eq_ok h2
  simp only [Out.pure_eq, Out.ok.injEq] at h3
  rw [← h3]
  exact putEntries_pos _ _ _ _ _ nb n h1 hes

def Msg.isUpdate : Msg → Bool
  | .reach .. => true
  | .unreach .. => true
  | _ => false

/-- **No frame without progress**: for an announcement or a withdrawal, whatever `do_encode` returns for a
    non-empty remainder carries at least one entry. -/
theorem doEncodeBody_pos (p : Profile) (c : Codec) (m : Msg) (es : List Entry) (fr : Bytes) (n : Nat)
    (hm : m.isUpdate = true) (h : doEncodeBody p c m es = .ok (fr, n)) (hes : es ≠ []) : n ≠ 0 := by
  cases m with
  | «open» a b c' d => cases hm
  | eor f => cases hm
  | notif a b d => cases hm
  | keepalive => cases hm
  | rr f => cases hm
  | reach f nh attrs es0 =>
      unfold doEncodeBody at h
      obtain ⟨⟨ab, attrLen⟩, _, h2⟩ := Out.bind_eq_ok h
      simp only at h2
      split at h2
      · obtain ⟨nhAttr, _, h3⟩ := Out.bind_eq_ok h2
        obtain ⟨⟨ab', attrLen'⟩, _, h4⟩ := Out.bind_eq_ok h3
        obtain ⟨⟨nb, k⟩, h5, h6⟩ := Out.bind_eq_ok h4
        simp only [Out.pure_eq, Out.ok.injEq, Prod.mk.injEq] at h6
        rw [← h6.2]
        exact putEntries_pos _ _ _ _ _ nb k h5 hes
      · obtain ⟨⟨mb, mpLen, k⟩, h3, h4⟩ := Out.bind_eq_ok h2
        simp only [Out.pure_eq, Out.ok.injEq, Prod.mk.injEq] at h4
        rw [← h4.2]
        exact mpReachEncode_pos p c _ f es nh _ h3 hes
  | unreach f es0 =>
      unfold doEncodeBody at h
      simp only at h
      split at h
      · obtain ⟨⟨nb, k⟩, h5, h6⟩ := Out.bind_eq_ok h
        simp only [Out.pure_eq, Out.ok.injEq, Prod.mk.injEq] at h6
        rw [← h6.2]
        exact putEntries_pos _ _ _ _ _ nb k h5 hes
      · obtain ⟨⟨mb, mpLen, k⟩, h3, h4⟩ := Out.bind_eq_ok h
        simp only [Out.pure_eq, Out.ok.injEq, Prod.mk.injEq] at h4
        rw [← h4.2]
        exact mpUnreachEncode_pos p c _ f es _ h3 hes

theorem doEncode_ok_inv (p : Profile) (c : Codec) (m : Msg) (es : List Entry) (fr : Bytes) (n : Nat)
    (h : doEncode p c m es = .ok (fr, n)) : doEncodeBody p c m es = .ok (fr, n) ∧ fr.length ≤ c.maxLen := by
  unfold doEncode at h
  cases hb : doEncodeBody p c m es with
  | panic => rw [hb] at h; cases h
  | err => rw [hb] at h; cases h
  | ok r =>
      rw [hb] at h
      obtain ⟨fr', n'⟩ := r
      simp only at h
      split at h
      · cases h
      · rename_i hle
        simp only [Out.ok.injEq, Prod.mk.injEq] at h
        obtain ⟨rfl, rfl⟩ := h
        exact ⟨rfl, by omega⟩

/-- **Every frame `do_encode` returns respects the negotiated maximum** — for every message and every input. -/
theorem doEncode_frame_le (p : Profile) (c : Codec) (m : Msg) (es : List Entry) (fr : Bytes) (n : Nat)
    (h : doEncode p c m es = .ok (fr, n)) : fr.length ≤ c.maxLen :=
  (doEncode_ok_inv p c m es fr n h).2

theorem doEncode_pos (p : Profile) (c : Codec) (m : Msg) (es : List Entry) (fr : Bytes) (n : Nat)
    (hm : m.isUpdate = true) (h : doEncode p c m es = .ok (fr, n)) (hes : es ≠ []) : n ≠ 0 :=
  doEncodeBody_pos p c m es fr n hm (doEncode_ok_inv p c m es fr n h).1 hes

/-- the chunk loop: when it succeeds, the counts it returns partition the entries and every frame is within
    the maximum -/
theorem encodeLoop_partition (p : Profile) (c : Codec) (m : Msg) (hm : m.isUpdate = true) :
    ∀ (k : Nat) (es : List Entry) (frames : List (Bytes × Nat)), es.length ≤ k →
      encodeLoop p c m es = .ok frames →
      (slices es (frames.map (·.2))).flatten = es ∧ ∀ x ∈ frames, x.1.length ≤ c.maxLen ∧ x.2 ≠ 0 := by
  intro k
  induction k with
  | zero =>
      intro es frames hk h
      have : es = [] := List.length_eq_zero_iff.mp (by omega)
      subst this
      rw [encodeLoop] at h
      simp only [Out.ok.injEq] at h
      subst h
      exact ⟨rfl, fun x hx => by cases hx⟩
  | succ k ih =>
      intro es frames hk h
      cases es with
      | nil =>
          rw [encodeLoop] at h
          simp only [Out.ok.injEq] at h
          subst h
          exact ⟨rfl, fun x hx => by cases hx⟩
      | cons e rest =>
          rw [encodeLoop] at h
          cases hd : doEncode p c m (e :: rest) with
          | panic => rw [hd] at h; cases h
          | err => rw [hd] at h; cases h
          | ok r =>
              obtain ⟨fr, n⟩ := r
              rw [hd] at h
              have hn := doEncode_pos p c m (e :: rest) fr n hm hd (by simp)
              have hle := doEncode_frame_le p c m (e :: rest) fr n hd
              simp only [hn, dite_false] at h
              cases hr : encodeLoop p c m ((e :: rest).drop n) with
              | panic => rw [hr] at h; cases h
              | err => rw [hr] at h; cases h
              | ok r' =>
                  rw [hr] at h
                  simp only [Out.ok.injEq] at h
                  subst h
                  have hlen : ((e :: rest).drop n).length ≤ k := by
                    simp only [List.length_drop, List.length_cons] at hk ⊢; omega
                  obtain ⟨ih1, ih2⟩ := ih _ _ hlen hr
                  refine ⟨?_, ?_⟩
                  · simp only [List.map_cons, slices, List.flatten_cons, ih1, List.take_append_drop]
                  · intro x hx
                    rcases List.mem_cons.mp hx with rfl | hx
                    · exact ⟨hle, hn⟩
                    · exact ih2 x hx

/-- **`encode_to` never drops, duplicates or reorders a prefix, and never exceeds the negotiated maximum**:
    whenever it returns `Ok`, for ANY message and ANY codec, the slices of the entry list given by the per-frame
    counts concatenate to the entry list, and every frame written is at most `max_message_length()` long. -/
theorem encodeTo_partition (p : Profile) (c : Codec) (m : Msg) (frames : List (Bytes × Nat))
    (h : encodeTo p c m = .ok frames) :
    (slices m.entries (frames.map (·.2))).flatten = m.entries ∧ ∀ x ∈ frames, x.1.length ≤ c.maxLen := by
  unfold encodeTo at h
  cases hent : m.entries with
  | nil =>
      rw [hent] at h
      simp only at h
      cases hd : doEncode p c m [] with
      | panic => rw [hd] at h; cases h
      | err => rw [hd] at h; cases h
      | ok r =>
          obtain ⟨fr, n⟩ := r
          rw [hd] at h
          simp only [Out.ok.injEq] at h
          subst h
          refine ⟨by simp [slices], ?_⟩
          intro x hx
          simp only [List.mem_singleton] at hx
          subst hx
          exact doEncode_frame_le p c m [] fr n hd
  | cons e es =>
      rw [hent] at h
      simp only at h
      have hm : m.isUpdate = true := by
        cases m <;> simp [Msg.entries] at hent <;> rfl
      obtain ⟨h1, h2⟩ := encodeLoop_partition p c m hm _ (e :: es) frames (Nat.le_refl _) h
      exact ⟨h1, fun x hx => (h2 x hx).1⟩

end Rbgp.Enc
