/-
  Rbgp.Enc.Proofs.Reentry — the entries / attributes obtained by decoding re-encode to the same bytes.
-/
import Rbgp.Enc.Proofs.Fixed
namespace Rbgp.Enc
open Rbgp.Enc.Spec

/-- the input entry rebuilt from what the peer decoded for it -/
def reE (v6 ap : Bool) (e : Entry) : Entry :=
  match e.nlri with
  | .ip _ addr mask =>
      ⟨.ip v6 (addr.take (ceil8 mask) ++ List.replicate (alenOf v6 - ceil8 mask) 0) mask, if ap then e.pid else 0⟩
  | .opq .. => e

theorem reE_ok (v6 ap : Bool) (e : Entry) (h : IpEntryOk v6 e) : IpEntryOk v6 (reE v6 ap e) := by
  obtain ⟨addr, mask, hn, hl, hm, hp⟩ := h
  have hc : ceil8 mask ≤ alenOf v6 := ceil8_le hm
  refine ⟨addr.take (ceil8 mask) ++ List.replicate (alenOf v6 - ceil8 mask) 0, mask, by simp [reE, hn], ?_, hm, ?_⟩
  · simp [List.length_take, hl]; omega
  · simp only [reE, hn]; split <;> omega

theorem encE_reE (v6 ap : Bool) (e : Entry) (h : IpEntryOk v6 e) : encE ap (reE v6 ap e) = encE ap e := by
  obtain ⟨addr, mask, hn, hl, hm, hp, henc⟩ := encE_ip v6 ap e h
  obtain ⟨addr', mask', hn', hl', hm', hp', henc'⟩ := encE_ip v6 ap _ (reE_ok v6 ap e h)
  have hc : ceil8 mask ≤ addr.length := by rw [hl]; exact ceil8_le hm
  rw [henc, henc']
  simp only [reE, hn] at hn'
  injection hn' with _ ha hmk
  subst hmk; subst ha
  have htk : (addr.take (ceil8 mask) ++ List.replicate (alenOf v6 - ceil8 mask) 0).take (ceil8 mask) = addr.take (ceil8 mask) := by
    apply List.take_left'; simp [List.length_take]; omega
  cases ap with
  | true => simp [encIp, reE, hn, htk]
  | false => simp [encIp, htk]

theorem decE_reE (v6 ap : Bool) (e : Entry) (h : IpEntryOk v6 e) : decE v6 ap (reE v6 ap e) = decE v6 ap e := by
  obtain ⟨addr, mask, hn, hl, hm, hp⟩ := h
  have hc : ceil8 mask ≤ addr.length := by rw [hl]; exact ceil8_le hm
  have htk : (addr.take (ceil8 mask) ++ List.replicate (alenOf v6 - ceil8 mask) 0).take (ceil8 mask) = addr.take (ceil8 mask) := by
    apply List.take_left'; simp [List.length_take]; omega
  simp only [decE, reE, hn, decIp, htk]
  cases ap <;> simp

theorem toEntries_decE (v6 ap : Bool) (sl sl' : List Entry) (h : ∀ e ∈ sl, IpEntryOk v6 e) :
    toEntries (sl.map (decE v6 ap)) sl' = sl.map (reE v6 ap) := by
  induction sl generalizing sl' with
  | nil => rfl
  | cons e es ih =>
      obtain ⟨addr, mask, hn, _⟩ := h e (by simp)
      simp only [List.map_cons, decE, hn, decIp, toEntries, reE]
      rw [← ih sl'.tail (fun x hx => h x (by simp [hx]))]

/-! ### the fit loop only looks at sizes -/

theorem fitN_map (max maxLen : Nat) (ap : Bool) (g : Entry → Entry) (cur : Nat) (es : List Entry)
    (h : ∀ e ∈ es, (encE ap (g e)).length = (encE ap e).length) :
    fitN max maxLen ap cur (es.map g) = fitN max maxLen ap cur es := by
  induction es generalizing cur with
  | nil => rfl
  | cons e es ih =>
      simp only [List.map_cons, fitN, h e (by simp)]
      rw [ih _ (fun x hx => h x (by simp [hx]))]

theorem fitN_take (max maxLen : Nat) (ap : Bool) (cur : Nat) (es : List Entry) :
    fitN max maxLen ap cur (es.take (fitN max maxLen ap cur es)) = fitN max maxLen ap cur es := by
  induction es generalizing cur with
  | nil => simp [fitN]
  | cons e es ih =>
      simp only [fitN]
      split
      · rename_i h
        simp only [List.take_succ_cons, fitN, h, if_true, ih]
      · simp [fitN]

theorem fitN_take_map (max maxLen : Nat) (ap : Bool) (v6 : Bool) (cur : Nat) (es : List Entry)
    (h : ∀ e ∈ es, IpEntryOk v6 e) :
    fitN max maxLen ap cur ((es.take (fitN max maxLen ap cur es)).map (reE v6 ap)) = fitN max maxLen ap cur es := by
  rw [fitN_map _ _ _ _ _ _ (fun e he => by rw [encE_reE v6 ap e (h e (List.mem_of_mem_take he))]), fitN_take]

theorem region_take_map (ap v6 : Bool) (n : Nat) (es : List Entry) (h : ∀ e ∈ es, IpEntryOk v6 e) :
    (((es.take n).map (reE v6 ap)).take n).flatMap (encE ap) = (es.take n).flatMap (encE ap) := by
  have hl : ((es.take n).map (reE v6 ap)).length ≤ n := by simp [List.length_take]; omega
  rw [List.take_of_length_le hl, List.flatMap_map]
  have : ∀ (l : List Entry), (∀ e ∈ l, IpEntryOk v6 e) →
      l.flatMap (fun e => encE ap (reE v6 ap e)) = l.flatMap (encE ap) := by
    intro l hl
    induction l with
    | nil => rfl
    | cons x xs ih =>
        rw [List.flatMap_cons, List.flatMap_cons, encE_reE v6 ap x (hl x (by simp)),
            ih (fun y hy => hl y (by simp [hy]))]
  exact this _ (fun e he => h e (List.mem_of_mem_take he))

theorem dents_take_map (ap v6 : Bool) (n : Nat) (es : List Entry) (h : ∀ e ∈ es, IpEntryOk v6 e) :
    (((es.take n).map (reE v6 ap)).take n).map (decE v6 ap) = (es.take n).map (decE v6 ap) := by
  have hl : ((es.take n).map (reE v6 ap)).length ≤ n := by simp [List.length_take]; omega
  rw [List.take_of_length_le hl, List.map_map]
  apply List.map_congr_left
  intro e he
  exact decE_reE v6 ap e (h e (List.mem_of_mem_take he))

/-! ### attributes -/

theorem wireValue_wireAttr (a : Attr) : wireValue (wireAttr a) = wireValue a := rfl

theorem setExt_idem (f : Nat) : setExt (setExt f) = setExt f := by
  have := hasExt_setExt f
  unfold setExt at this ⊢
  simp [this]

theorem rawOf_wireAttr (a : Attr) : rawOf (wireAttr a) = rawOf a := by
  simp only [rawOf, wireValue_wireAttr]
  by_cases h : (wireValue a).length > 255
  · simp [h, wireAttr, rawOf, setExt_idem]
  · simp [h, wireAttr, rawOf]

theorem wireAttr_idem (a : Attr) : wireAttr (wireAttr a) = wireAttr a := by
  have := rawOf_wireAttr a
  show Attr.mk (wireAttr a).code (rawOf (wireAttr a)).flags (wireAttr a).data = wireAttr a
  rw [this]; rfl

theorem attrBlock4_wire (attrs : List Attr) : attrBlock4 (attrs.map wireAttr) = attrBlock4 attrs := by
  simp [attrBlock4, List.flatMap_map, rawOf_wireAttr]

theorem setExt_lt (f : Nat) (h : f < 256) : setExt f < 256 := by
  unfold setExt
  by_cases he : hasExt f = true
  · simp [he, h]
  · have h0 : f / 16 % 2 = 0 := by
      have : ¬ f / 16 % 2 = 1 := fun hc => he ((hasExt_iff f).mpr hc)
      omega
    have he0 : hasExt f = false := by simpa using he
    simp only [he0, Bool.false_eq_true, if_false]
    omega

theorem attrOk_wireAttr (a : Attr) (h : attrOk a = true) : attrOk (wireAttr a) = true := by
  have hhi := rawOf_flags_hi a
  simp only [attrOk, Bool.and_eq_true, decide_eq_true_eq] at h ⊢
  obtain ⟨⟨⟨⟨hc, hf⟩, hb⟩, hl⟩, hm⟩ := h
  have hflt : (rawOf a).flags < 256 := by
    simp only [rawOf]; split
    · exact setExt_lt _ hf
    · exact hf
  refine ⟨⟨⟨⟨hc, hflt⟩, by rw [wireValue_wireAttr]; exact hb⟩, by rw [wireValue_wireAttr]; exact hl⟩, ?_⟩
  show (match canonicalFlags (wireAttr a).code with
    | some exp => (wireAttr a).flags / 64 % 4 == exp / 64 % 4 && decodeAttrData (wireAttr a).code (wireValue (wireAttr a)) false == some (wireAttr a).data
    | none => (match (wireAttr a).data with | .opq _ => true | _ => false) && (wireAttr a).flags / 64 % 4 == 3) = true
  rw [wireValue_wireAttr]
  have e1 : (wireAttr a).code = a.code := rfl
  have e2 : (wireAttr a).data = a.data := rfl
  have e3 : (wireAttr a).flags = (rawOf a).flags := rfl
  rw [e1, e2, e3, hhi]
  exact hm

theorem attrsOk_wire (attrs : List Attr) (h : AttrsOk attrs) : AttrsOk (attrs.map wireAttr) := by
  obtain ⟨hall, hnd⟩ := h
  refine ⟨?_, ?_⟩
  · intro a ha
    obtain ⟨b, hb, rfl⟩ := List.mem_map.mp ha
    exact ⟨attrOk_wireAttr b (hall b hb).1, (hall b hb).2⟩
  · have : (attrs.map wireAttr).map (·.code) = attrs.map (·.code) := by
      rw [List.map_map]; rfl
    rw [this]; exact hnd

theorem hasCode_wire (c : Nat) (attrs : List Attr) : hasCode c (attrs.map wireAttr) = hasCode c attrs := by
  simp only [hasCode, List.any_map]
  rfl

end Rbgp.Enc
