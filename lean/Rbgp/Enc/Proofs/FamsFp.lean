/-
  Rbgp.Enc.Proofs.FamsFp — the four UPDATE frame families with their fixed-point data.
-/
import Rbgp.Enc.Proofs.Reentry
namespace Rbgp.Enc
open Rbgp.Enc.Spec

theorem IpS.map_reE {v6 : Bool} (ap : Bool) {r : List Entry} (h : IpS v6 r) : IpS v6 (r.map (reE v6 ap)) := by
  intro e he
  obtain ⟨x, hx, rfl⟩ := List.mem_map.mp he
  exact reE_ok v6 ap x (h x hx)

theorem FitS.map_reE {v6 ap : Bool} {max tail cur : Nat} {r : List Entry} (hi : IpS v6 r) (h : FitS max tail ap cur r) :
    FitS max tail ap cur (r.map (reE v6 ap)) := by
  intro e he
  obtain ⟨x, hx, rfl⟩ := List.mem_map.mp he
  rw [encE_reE v6 ap x (hi x hx)]
  exact h x hx

theorem clean_upd_ip (v6 ap : Bool) (sl : List Entry) (h : ∀ e ∈ sl, IpEntryOk v6 e) :
    ((sl.map (decE v6 ap)).any DEntry.isBad) = false := by
  rw [List.any_eq_false]
  intro d hd
  obtain ⟨e, he, rfl⟩ := List.mem_map.mp hd
  obtain ⟨addr, mask, hn, _⟩ := h e he
  simp [decE, hn, decIp, DEntry.isBad]

/-! ### legacy reach -/

def reachLegacyFp (p : Profile) (loc rem : List Cap) (attrs : List Attr) (es0 : List Entry) (a : Bytes)
    (ab : Bytes) (fin : List Attr) (P : AttrPart (negotiate rem loc).twoByte ab fin)
    (hattrs : encodeAttrs p (negotiate loc rem).twoByte attrs 0 = .ok (ab, ab.length))
    (hattrs' : encodeAttrs p (negotiate loc rem).twoByte fin 0 = .ok (ab, ab.length))
    (h1 : hasCode 1 fin = true) (h2 : hasCode 2 fin = true)
    (hleg : (negotiate loc rem).extNh = false) (ha : a.length = 4)
    (hc : CodecPair (negotiate loc rem) (negotiate rem loc) Fam.ipv4) :
    UpdFamFp p loc rem (.reach Fam.ipv4 (some (.v4 a)) attrs es0) where
  toUpdFam := reachLegacyFam p (negotiate loc rem) (negotiate rem loc) attrs es0 a ab fin P hattrs hleg ha hc
  g := reE false ((negotiate loc rem).addpathTx Fam.ipv4)
  hle := fun r => fitN_le _ _ _ _ r
  remsg := fun es' => .reach Fam.ipv4 (some (.v4 a)) fin es'
  hremsg := fun _ => rfl
  htoMsgs := by
    intro r hr hS
    simp only [reachLegacyFam, toMsgs, Option.map, Option.getD, Option.isSome, Bool.true_or, h1, h2,
      Bool.not_true, Bool.false_or, Option.isNone, Bool.or_self, Bool.and_false, Bool.false_eq_true, if_false,
      List.append_nil]
    rw [toEntries_decE false _ _ _ (hS.1.take _)]
  hclean := by
    intro r _ hS
    simp only [reachLegacyFam, DRes.clean, List.isEmpty_nil, Bool.true_and, Option.map, Option.getD, List.append_nil]
    rw [clean_upd_ip false _ _ (hS.1.take _)]; rfl
  hnE := by
    intro r _ _
    simp only [reachLegacyFam, Parsed.nEntries, Option.map, Option.getD, List.length_map, List.length_take]
    have := fitN_le (negotiate loc rem).maxLen 0
      ((negotiate loc rem).addpathTx Fam.ipv4) (23 + (ab.length + 7)) r
    omega
  refam := fun es' => reachLegacyFam p (negotiate loc rem) (negotiate rem loc) fin es' a ab fin P hattrs' hleg ha hc
  hsameB := fun _ => rfl
  hsameN := fun _ => rfl
  hsameQ := fun _ => rfl
  hsameS := fun _ => rfl
  hgS := fun _ h => ⟨h.1.map_reE _, FitS.map_reE h.1 h.2⟩
  hgN := fun r _ hS => fitN_take_map _ _ _ false _ r hS.1
  hgB := by
    intro r _ hS
    simp only [reachLegacyFam]
    rw [fitN_take_map _ _ _ false _ r hS.1, region_take_map _ false _ r hS.1]
  hgQ := by
    intro r _ hS
    simp only [reachLegacyFam]
    rw [fitN_take_map _ _ _ false _ r hS.1, dents_take_map _ false _ r hS.1]
  htakeS := fun _ n h => ⟨h.1.take n, h.2.take n⟩

/-! ### MP reach -/

def reachMpFp (p : Profile) (loc rem : List Cap) (f : Fam) (v6 : Bool) (attrs : List Attr) (es0 : List Entry) (nh : Nh)
    (ab : Bytes) (fin : List Attr) (P : AttrPart (negotiate rem loc).twoByte ab fin)
    (hattrs : encodeAttrs p (negotiate loc rem).twoByte attrs 0 = .ok (ab, ab.length))
    (hattrs' : encodeAttrs p (negotiate loc rem).twoByte fin 0 = .ok (ab, ab.length))
    (h1 : hasCode 1 fin = true) (h2 : hasCode 2 fin = true)
    (hmp : ¬ (f = Fam.ipv4 ∧ (!(negotiate loc rem).extNh) = true)) (hf : isIpFam f = some v6)
    (hfa : f.afi < 65536) (hfs : f.safi < 256) (hnh : NhMp f nh)
    (hc : CodecPair (negotiate loc rem) (negotiate rem loc) f) :
    UpdFamFp p loc rem (.reach f (some nh) attrs es0) where
  toUpdFam := reachMpFam p (negotiate loc rem) (negotiate rem loc) f v6 attrs es0 nh ab fin P hattrs hmp hf hfa hfs hnh hc
  g := reE v6 ((negotiate loc rem).addpathTx f)
  hle := fun r => fitN_le _ _ _ _ r
  remsg := fun es' => .reach f (some nh) fin es'
  hremsg := fun _ => rfl
  htoMsgs := by
    intro r hr hS
    have hfl := (nhPart_ip f v6 hf).1
    simp only [reachMpFam, toMsgs, Option.map, Option.getD, Option.isSome, Bool.or_true, h1, h2,
      Bool.not_true, Bool.false_or, Option.isNone, Bool.or_self, Bool.and_false, Bool.false_eq_true, if_false,
      List.append_nil, List.nil_append, Nat.add_zero, Nat.zero_add, List.drop_zero, Bool.false_and, Bool.or_false]
    rw [toEntries_decE v6 _ _ _ (hS.1.take _)]
  hclean := by
    intro r _ hS
    simp only [reachMpFam, DRes.clean, List.isEmpty_nil, Bool.true_and, Option.map, Option.getD, List.append_nil,
      List.nil_append]
    rw [clean_upd_ip v6 _ _ (hS.1.take _)]; rfl
  hnE := by
    intro r _ _
    simp only [reachMpFam, Parsed.nEntries, Option.map, Option.getD, List.length_map, List.length_take]
    have := fitN_le (negotiate loc rem).maxLen 0
      ((negotiate loc rem).addpathTx f) (23 + ab.length + 4 + (5 + nh.bytes.length)) r
    omega
  refam := fun es' => reachMpFam p (negotiate loc rem) (negotiate rem loc) f v6 fin es' nh ab fin P hattrs' hmp hf hfa hfs hnh hc
  hsameB := fun _ => rfl
  hsameN := fun _ => rfl
  hsameQ := fun _ => rfl
  hsameS := fun _ => rfl
  hgS := fun _ h => ⟨h.1.map_reE _, FitS.map_reE h.1 h.2⟩
  hgN := fun r _ hS => fitN_take_map _ _ _ v6 _ r hS.1
  hgB := by
    intro r _ hS
    simp only [reachMpFam]
    rw [fitN_take_map _ _ _ v6 _ r hS.1, region_take_map _ v6 _ r hS.1]
  hgQ := by
    intro r _ hS
    simp only [reachMpFam]
    rw [fitN_take_map _ _ _ v6 _ r hS.1, dents_take_map _ v6 _ r hS.1]
  htakeS := fun _ n h => ⟨h.1.take n, h.2.take n⟩

/-! ### withdrawals -/

def unreachLegacyFp (p : Profile) (loc rem : List Cap) (es0 : List Entry)
    (hleg : (negotiate loc rem).extNh = false)
    (hc : CodecPair (negotiate loc rem) (negotiate rem loc) Fam.ipv4) :
    UpdFamFp p loc rem (.unreach Fam.ipv4 es0) where
  toUpdFam := unreachLegacyFam p (negotiate loc rem) (negotiate rem loc) es0 hleg hc
  g := reE false ((negotiate loc rem).addpathTx Fam.ipv4)
  hle := fun r => fitN_le _ _ _ _ r
  remsg := fun es' => .unreach Fam.ipv4 es'
  hremsg := fun _ => rfl
  htoMsgs := by
    intro r hr hS
    simp only [unreachLegacyFam, toMsgs, Option.map, Option.getD, Option.isSome, Bool.or_self,
      Bool.false_and, Bool.false_eq_true, if_false, List.append_nil, List.nil_append, Nat.add_zero, Nat.zero_add,
      List.drop_zero]
    rw [toEntries_decE false _ _ _ (hS.1.take _)]
  hclean := by
    intro r _ hS
    simp only [unreachLegacyFam, DRes.clean, List.isEmpty_nil, Bool.true_and, Option.map, Option.getD, List.append_nil,
      List.nil_append]
    rw [clean_upd_ip false _ _ (hS.1.take _)]; rfl
  hnE := by
    intro r _ _
    simp only [unreachLegacyFam, Parsed.nEntries, Option.map, Option.getD, List.length_map, List.length_take]
    have := fitN_le (negotiate loc rem).maxLen 2
      ((negotiate loc rem).addpathTx Fam.ipv4) 21 r
    omega
  refam := fun es' => unreachLegacyFam p (negotiate loc rem) (negotiate rem loc) es' hleg hc
  hsameB := fun _ => rfl
  hsameN := fun _ => rfl
  hsameQ := fun _ => rfl
  hsameS := fun _ => rfl
  hgS := fun _ h => ⟨h.1.map_reE _, FitS.map_reE h.1 h.2⟩
  hgN := fun r _ hS => fitN_take_map _ _ _ false _ r hS.1
  hgB := by
    intro r _ hS
    simp only [unreachLegacyFam]
    rw [fitN_take_map _ _ _ false _ r hS.1, region_take_map _ false _ r hS.1]
  hgQ := by
    intro r _ hS
    simp only [unreachLegacyFam]
    rw [fitN_take_map _ _ _ false _ r hS.1, dents_take_map _ false _ r hS.1]
  htakeS := fun _ n h => ⟨h.1.take n, h.2.take n⟩

def unreachMpFp (p : Profile) (loc rem : List Cap) (f : Fam) (v6 : Bool) (es0 : List Entry)
    (hmp : ¬ (f = Fam.ipv4 ∧ (!(negotiate loc rem).extNh) = true)) (hf : isIpFam f = some v6)
    (hfa : f.afi < 65536) (hfs : f.safi < 256)
    (hc : CodecPair (negotiate loc rem) (negotiate rem loc) f) :
    UpdFamFp p loc rem (.unreach f es0) where
  toUpdFam := unreachMpFam p (negotiate loc rem) (negotiate rem loc) f v6 es0 hmp hf hfa hfs hc
  g := reE v6 ((negotiate loc rem).addpathTx f)
  hle := fun r => fitN_le _ _ _ _ r
  remsg := fun es' => .unreach f es'
  hremsg := fun _ => rfl
  htoMsgs := by
    intro r hr hS
    simp only [unreachMpFam, toMsgs, Option.map, Option.getD, Option.isSome, Bool.or_self,
      Bool.false_and, Bool.false_eq_true, if_false, List.append_nil, List.nil_append, Nat.add_zero, Nat.zero_add,
      List.drop_zero]
    rw [toEntries_decE v6 _ _ _ (hS.1.take _)]
  hclean := by
    intro r _ hS
    simp only [unreachMpFam, DRes.clean, List.isEmpty_nil, Bool.true_and, Option.map, Option.getD, List.append_nil,
      List.nil_append]
    rw [clean_upd_ip v6 _ _ (hS.1.take _)]; rfl
  hnE := by
    intro r _ _
    simp only [unreachMpFam, Parsed.nEntries, Option.map, Option.getD, List.length_map, List.length_take]
    have := fitN_le (negotiate loc rem).maxLen 0
      ((negotiate loc rem).addpathTx f) (23 + 4 + 3) r
    omega
  refam := fun es' => unreachMpFam p (negotiate loc rem) (negotiate rem loc) f v6 es' hmp hf hfa hfs hc
  hsameB := fun _ => rfl
  hsameN := fun _ => rfl
  hsameQ := fun _ => rfl
  hsameS := fun _ => rfl
  hgS := fun _ h => ⟨h.1.map_reE _, FitS.map_reE h.1 h.2⟩
  hgN := fun r _ hS => fitN_take_map _ _ _ v6 _ r hS.1
  hgB := by
    intro r _ hS
    simp only [unreachMpFam]
    rw [fitN_take_map _ _ _ v6 _ r hS.1, region_take_map _ v6 _ r hS.1]
  hgQ := by
    intro r _ hS
    simp only [unreachMpFam]
    rw [fitN_take_map _ _ _ v6 _ r hS.1, dents_take_map _ v6 _ r hS.1]
  htakeS := fun _ n h => ⟨h.1.take n, h.2.take n⟩

end Rbgp.Enc
