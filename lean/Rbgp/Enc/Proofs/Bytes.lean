/-
  Rbgp.Enc.Proofs.Bytes — byte-level lemmas: big-endian encodings, framing, frame splitting.
-/
import Rbgp.Enc.Run
namespace Rbgp.Enc

/-- every element is a byte -/
def BytesOk (b : Bytes) : Prop := ∀ x ∈ b, x < 256

theorem BytesOk.nil : BytesOk [] := by intro x h; cases h
theorem BytesOk.append {a b : Bytes} (ha : BytesOk a) (hb : BytesOk b) : BytesOk (a ++ b) := by
  intro x h; rcases List.mem_append.mp h with h | h
  · exact ha x h
  · exact hb x h
theorem BytesOk.cons {x : Nat} {b : Bytes} (hx : x < 256) (hb : BytesOk b) : BytesOk (x :: b) := by
  intro y h; rcases List.mem_cons.mp h with h | h
  · exact h ▸ hx
  · exact hb y h

@[simp] theorem be16_length (n : Nat) : (be16 n).length = 2 := rfl
@[simp] theorem be32_length (n : Nat) : (be32 n).length = 4 := rfl

theorem beNat_nil : beNat [] = 0 := rfl
@[simp] theorem beNat_single (b : Nat) : beNat [b] = b := by simp [beNat]
theorem beNat_pair (a b : Nat) : beNat [a, b] = a * 256 + b := by simp [beNat]

theorem beNat_be16 {n : Nat} (h : n < 65536) : beNat (be16 n) = n := by
  simp [beNat, be16]; omega
theorem beNat_be32 {n : Nat} (h : n < 4294967296) : beNat (be32 n) = n := by
  simp [beNat, be32]; omega

theorem be16_bytesOk (n : Nat) : BytesOk (be16 n) := by
  intro x h; simp [be16] at h; rcases h with h | h <;> omega
theorem be32_bytesOk (n : Nat) : BytesOk (be32 n) := by
  intro x h; simp [be32] at h; rcases h with h | h | h | h <;> omega

@[simp] theorem marker_length : marker.length = 16 := by simp [marker]

@[simp] theorem frame_length (ty : Nat) (body : Bytes) : (frame ty body).length = 19 + body.length := by
  simp [frame]; omega

theorem frame_lenField (ty : Nat) (body : Bytes) :
    ((frame ty body ++ rest).drop 16).take 2 = be16 ((19 + body.length) % 65536) := by
  simp [frame, List.append_assoc]
  rw [List.take_left' (by simp)]

theorem frame_type (ty : Nat) (body : Bytes) : ((frame ty body).drop 18).take 1 = [ty] := by
  have : frame ty body = (marker ++ be16 ((19 + body.length) % 65536)) ++ ([ty] ++ body) := by
    simp [frame, List.append_assoc]
  rw [this, List.drop_left' (by simp)]
  simp

theorem frame_body (ty : Nat) (body : Bytes) : (frame ty body).drop 19 = body := by
  have : frame ty body = (marker ++ be16 ((19 + body.length) % 65536) ++ [ty]) ++ body := by
    simp [frame, List.append_assoc]
  rw [this, List.drop_left' (by simp)]

theorem frame_marker (ty : Nat) (body : Bytes) : (frame ty body).take 16 = List.replicate 16 255 := by
  simp [frame, List.append_assoc, marker]

/-- The frame splitter recovers a well-sized frame. -/
theorem splitFrames_frame (ty : Nat) (body rest : Bytes) (h : 19 + body.length < 65536) :
    splitFrames (frame ty body ++ rest) =
      (frame ty body :: (splitFrames rest).1, (splitFrames rest).2) := by
  rw [splitFrames]
  have hl : ¬ (frame ty body ++ rest).length < 19 := by simp; omega
  simp only [hl, dite_false]
  rw [frame_lenField, Nat.mod_eq_of_lt h, beNat_be16 h]
  have h2 : ¬ (19 + body.length < 19 ∨ (frame ty body ++ rest).length < 19 + body.length) := by
    simp
  simp only [h2, dite_false]
  rw [List.take_left' (by simp), List.drop_left' (by simp)]
  done

end Rbgp.Enc
