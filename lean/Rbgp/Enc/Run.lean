/-
  Rbgp.Enc.Run — one C04 run of the model: encode with `negotiate(local, remote)`, decode the
  byte stream with the peer's codec `negotiate(remote, local)`, then the fixed-point probe
  (re-encode every decoded value, decode again, compare).  Mirrors harness/pt/src/bin/c04.rs.
-/
import Rbgp.Enc.Reader
namespace Rbgp.Enc

structure Input where
  loc : List Cap
  rem : List Cap
  msg : Msg
  deriving DecidableEq, Repr, Inhabited

inductive Fp where
  | t | f | na | panic
  deriving DecidableEq, Repr, Inhabited

inductive Obs where
  | panic
  /-- `encode_to` returned `Err` (the encoder refused the message) -/
  | err
  | obs (n : Nat) (stream : Bytes) (dec : List DRes) (fp : Fp)
  deriving DecidableEq, Repr, Inhabited

/-- Wire bytes of the entries of one frame as they appear in the NLRI region. -/
def regionOf (addpath : Bool) (es : List Entry) : Bytes :=
  es.flatMap (fun e => (if addpath then be32 e.pid else []) ++ (e.nlri.encode.getD []))

/-- What the real decoder is assumed to return for the entries of one frame of an opaque family:
    the concatenation of the per-entry probes (hypothesis: these decoders are prefix-independent). -/
def combineProbes (addpath : Bool) : List Entry → ODec
  | [] => .ents []
  | e :: rest =>
      match e.nlri with
      | .opq _ dec info =>
          -- the modelled NLRI codec when the structure is known, else the probe
          let d : ODec := match info.st with
            | some s =>
                (match s.encode info.wd with
                 | .ok bs => (match s.decodeLike (!info.wd) bs with
                     | some s' => .ents [(0, NStruct.equiv (!info.wd) s s')]
                     | none => .err)
                 | _ => .err)
            | none => dec
          (match d with
           | .ents l =>
              (match combineProbes addpath rest with
               | .ents l2 => .ents (l.map (fun x => ((if addpath then e.pid else x.1), x.2)) ++ l2)
               | r => r)
           | .err => .err
           | .panic => .panic)
      | .ip .. => .err

/-- Slices of `es` of the given lengths. -/
def slices {α} : List α → List Nat → List (List α)
  | _, [] => []
  | es, n :: ns => es.take n :: slices (es.drop n) ns

/-- The opaque-family decoder parameter for one encode: a table NLRI-region ↦ combined probe. -/
def mkOpaqueDec (addpath : Bool) (es : List Entry) (counts : List Nat) : OpaqueDec :=
  let table := (slices es counts).map (fun sl => (regionOf addpath sl, combineProbes addpath sl))
  fun _ _ bs => match table.find? (fun x => x.1 == bs) with
    | some x => x.2
    | none => .err

/-- Decode a stream with `try_parse` until it is exhausted or the decoder stops. -/
def decodeStream (od : OpaqueDec) (c : Codec) (src : Bytes) : List DRes :=
  if src.isEmpty then []
  else if h : src.length < 19 then [.short src.length]
  else
    let len := beNat ((src.drop 16).take 2)
    if h2 : len < 19 ∨ len > c.maxLen then [.err 1 2]
    else if h3 : src.length < len then [.short src.length]
    else match parseMessage od c (src.take len) with
      | .msg p => .msg p :: decodeStream od c (src.drop len)
      | r => [r]
termination_by src.length
decreasing_by simp [List.length_drop]; omega

/-- encode with (loc → rem), decode with the peer's codec -/
def roundTrip (p : Profile) (loc rem : List Cap) (m : Msg) : Out (List (Bytes × Nat) × List DRes) :=
  let enc := negotiate loc rem
  let peer := negotiate rem loc
  match encodeTo p enc m with
  | .panic => .panic
  | .err => .err
  | .ok frames =>
      let fam : Fam := match m with
        | .reach f .. => f
        | .unreach f _ => f
        | _ => Fam.ipv4
      let od := mkOpaqueDec (enc.addpathTx fam) m.entries (frames.map (·.2))
      .ok (frames, decodeStream od peer (frames.flatMap (·.1)))

def DEntry.isBad : DEntry → Bool
  | .o _ eq => !eq
  | _ => false

/-- a decoded message without attribute errors (and, for opaque families, equal to the input) -/
def DRes.clean : DRes → Bool
  | .msg (.upd r mr u mu _ errs) =>
      errs.isEmpty &&
      !((r.map (·.2.2)).getD [] ++ (mr.map (·.2.2)).getD [] ++ (u.map (·.2)).getD [] ++ (mu.map (·.2)).getD []).any DEntry.isBad
  | .msg _ => true
  | _ => false

def hasCode (code : Nat) (attrs : List Attr) : Bool := attrs.any (·.code == code)

/-- decoded entries back to input entries; opaque ones are taken from the input slice -/
def toEntries : List DEntry → List Entry → List Entry
  | [], _ => []
  | .ip v6 a m pid :: rest, sl => ⟨.ip v6 a m, pid⟩ :: toEntries rest sl.tail
  | .o _ _ :: rest, sl =>
      match sl with
      | e :: sl' => e :: toEntries rest sl'
      | [] => toEntries rest []

/-- `validate_message(p, is_ebgp = false)` for a clean parsed message -/
def toMsgs (p : Parsed) (sl : List Entry) : List Msg :=
  match p with
  | .open a h r caps => [.open a h r caps]
  | .eor f => [.eor f]
  | .notif c s d => [.notif c s d]
  | .keepalive => [.keepalive]
  | .rr f => [.rr f]
  | .upd r mr u mu attrs _ =>
      let n1 := (r.map (·.2.2.length)).getD 0
      let n2 := (mr.map (·.2.2.length)).getD 0
      let n3 := (u.map (·.2.length)).getD 0
      let s1 := sl
      let s2 := sl.drop n1
      let s3 := sl.drop (n1 + n2)
      let s4 := sl.drop (n1 + n2 + n3)
      let mpMissingNh := match mr with
        | some (f, nh, _) => nh.isNone && !isFlowspec f
        | none => false
      let missing := (r.isSome || mr.isSome) &&
        (!hasCode 1 attrs || !hasCode 2 attrs || (match r with | some (_, nh, _) => nh.isNone | none => false) || mpMissingNh)
      if missing then
        (match r with | some (f, _, l) => [Msg.unreach f (toEntries l s1)] | none => []) ++
        (match mr with | some (f, _, l) => [Msg.unreach f (toEntries l s2)] | none => []) ++
        (match u with | some (f, l) => [Msg.unreach f (toEntries l s3)] | none => []) ++
        (match mu with | some (f, l) => [Msg.unreach f (toEntries l s4)] | none => [])
      else
        (match r with | some (f, nh, l) => [Msg.reach f nh attrs (toEntries l s1)] | none => []) ++
        (match u with | some (f, l) => [Msg.unreach f (toEntries l s3)] | none => []) ++
        (match mr with | some (f, nh, l) => [Msg.reach f nh attrs (toEntries l s2)] | none => []) ++
        (match mu with | some (f, l) => [Msg.unreach f (toEntries l s4)] | none => [])

def Parsed.nEntries : Parsed → Nat
  | .upd r mr u mu _ _ =>
      (r.map (·.2.2.length)).getD 0 + (mr.map (·.2.2.length)).getD 0 + (u.map (·.2.length)).getD 0 + (mu.map (·.2.length)).getD 0
  | _ => 0

/-- encode a list of messages into one stream with fresh codecs and decode it -/
def reTrip (p : Profile) (loc rem : List Cap) (ms : List Msg) : Out (List DRes) :=
  let enc := negotiate loc rem
  let peer := negotiate rem loc
  let rec go : List Msg → Out (List (Bytes × Nat × Msg)) 
    | [] => .ok []
    | m :: rest => match encodeTo p enc m with
      | .panic => .panic
      | .err => .err
      | .ok frs => match go rest with
        | .panic => .panic
        | .err => .err
        | .ok l => .ok (frs.map (fun x => (x.1, x.2, m)) ++ l)
  match go ms with
  | .panic => .panic
  | .err => .err
  | .ok frs =>
      -- opaque decoder table over all messages
      let table : List (Bytes × ODec) := ms.flatMap (fun m =>
        match encodeTo p enc m with
        | .ok fr =>
            let fam : Fam := match m with | .reach f .. => f | .unreach f _ => f | _ => Fam.ipv4
            let ap := enc.addpathTx fam
            (slices m.entries (fr.map (·.2))).map (fun sl => (regionOf ap sl, combineProbes ap sl))
        | _ => [])
      let od : OpaqueDec := fun _ _ bs => match table.find? (fun x => x.1 == bs) with
        | some x => x.2
        | none => .err
      .ok (decodeStream od peer (frs.flatMap (·.1)))

/-- The fixed-point probe over the decoded messages. -/
def fixedPoint (p : Profile) (loc rem : List Cap) : List DRes → List Entry → Out Bool
  | [], _ => .ok true
  | .msg q :: rest, es =>
      let n := q.nEntries
      let sl := if n ≤ es.length then es.take n else []
      -- a decoded UPDATE that carries no route yields no message: nothing to re-encode
      if (toMsgs q sl).isEmpty then fixedPoint p loc rem rest (es.drop n)
      else
      match reTrip p loc rem (toMsgs q sl) with
      | .panic => .panic
      | .err => .ok false          -- `enc2.encode_to(m).is_err()`: the decoded value does not re-encode
      | .ok d2 =>
          if d2.all DRes.clean && d2 == [.msg q] then fixedPoint p loc rem rest (es.drop n)
          else .ok false
  | _ :: _, _ => .ok false

def run (p : Profile) (i : Input) : Obs :=
  match roundTrip p i.loc i.rem i.msg with
  | .panic => .panic
  | .err => .err
  | .ok (frames, dec) =>
      let fp : Fp :=
        if dec.all DRes.clean then
          match fixedPoint p i.loc i.rem dec i.msg.entries with
          | .ok true => .t
          | .ok false => .f
          | .err => .f
          | .panic => .panic
        else .na
      .obs frames.length (frames.flatMap (·.1)) dec fp

end Rbgp.Enc
