/-
  Rbgp.Enc.Proofs — the master theorem of C04 (the reference checker accepts every model run on the
  domain `Dom`) assembled from the per-message-kind theorems, and the inversion of the checker's verdict
  into its clauses.  Helper lemmas live in `Rbgp/Enc/Proofs/*.lean`.
-/
import Rbgp.Enc.Proofs.Open
namespace Rbgp.Enc
open Rbgp.Enc.Spec

/-- Domain of the master theorem: buildable and encodable messages of every kind; for UPDATEs the IPv4/IPv6
    unicast/multicast families; announcements on sessions with 4-octet AS numbers on both sides or towards a
    2-octet-AS peer with an AS_PATH RFC 6793 can carry (`carriableB`), and without the recorded "IPv4 next hop in
    MP_REACH" defect.  (`encodable` = every entry fits a frame of its own: the chunk
    loop's progress needs no further side condition.) -/
def Dom (i : Input) : Bool := domReach i || domUnreach i || domSmall i || domOpen i

/-- **Master theorem.** The C04 reference checker accepts every run of the model on `Dom`, in both build
    profiles. -/
theorem check_run_ok' (p : Profile) (i : Input) (h : Dom i = true) :
    check i (run p i) = .ok ∧ ∃ n s dec, run p i = .obs n s dec .t := by
  simp only [Dom, Bool.or_eq_true] at h
  rcases h with ((h | h) | h) | h
  · exact master_reach p i h
  · exact master_unreach p i h
  · exact master_small p i h
  · exact master_open p i h

theorem check_run_ok (p : Profile) (i : Input) (h : Dom i = true) : check i (run p i) = .ok :=
  (check_run_ok' p i h).1

/-! ### reading the verdict -/

theorem orElse'_none {a : Option String} {b : Unit → Option String} (h : orElse' a b = none) :
    a = none ∧ b () = none := by
  cases a with
  | none => exact ⟨rfl, h⟩
  | some s => simp [orElse'] at h

/-- `check = ok` on a buildable, encodable input means every clause passed. -/
theorem check_ok_clauses (i : Input) (n : Nat) (stream : Bytes) (dec : List DRes) (fp : Fp)
    (hb : buildable i = true) (henc : encodable i = true)
    (h : check i (.obs n stream dec fp) = .ok) :
    frameClause i n stream = none ∧ opaqueClause i (splitFrames stream).1 = none ∧
    decodeClause dec (splitFrames stream).1.length = none ∧
    contentClause i (splitFrames stream).1 (dec.filterMap isMsg) = none ∧ fpClause fp = none := by
  unfold check checkClause at h
  simp only [hb, Bool.not_true, Bool.false_eq_true, if_false, henc, if_true, checkClause0] at h
  have h0 : orElse' (frameClause i n stream) (fun _ =>
      orElse' (opaqueClause i (splitFrames stream).1) fun _ =>
      orElse' (decodeClause dec (splitFrames stream).1.length) fun _ =>
      orElse' (contentClause i (splitFrames stream).1 (dec.filterMap isMsg)) fun _ => fpClause fp) = none := by
    cases hc : orElse' (frameClause i n stream) (fun _ =>
      orElse' (opaqueClause i (splitFrames stream).1) fun _ =>
      orElse' (decodeClause dec (splitFrames stream).1.length) fun _ =>
      orElse' (contentClause i (splitFrames stream).1 (dec.filterMap isMsg)) fun _ => fpClause fp) with
    | none => rfl
    | some s => rw [hc] at h; cases h
  obtain ⟨h1, h0⟩ := orElse'_none h0
  obtain ⟨h2, h0⟩ := orElse'_none h0
  obtain ⟨h3, h0⟩ := orElse'_none h0
  obtain ⟨h4, h5⟩ := orElse'_none h0
  exact ⟨h1, h2, h3, h4, h5⟩

theorem Dom_buildable (i : Input) (h : Dom i = true) : buildable i = true ∧ encodable i = true := by
  simp only [Dom, Bool.or_eq_true] at h
  rcases h with ((h | h) | h) | h
  · unfold domReach at h
    split at h
    · simp only [Bool.and_eq_true] at h; exact ⟨h.1.1.1.1.1, h.1.1.1.1.2⟩
    · cases h
  · unfold domUnreach at h
    split at h
    · simp only [Bool.and_eq_true] at h; exact ⟨h.1.1.1, h.1.1.2⟩
    · cases h
  · unfold domSmall at h
    split at h
    · simp only [Bool.and_eq_true] at h; exact h
    · simp only [Bool.and_eq_true] at h; exact h
    · simp only [Bool.and_eq_true] at h; exact h
    · simp only [Bool.and_eq_true] at h; exact h.1
    · cases h
  · unfold domOpen at h
    split at h
    · simp only [Bool.and_eq_true] at h; exact h
    · cases h

theorem firstSome_none_iff {α} (l : List α) (f : α → Option String) (h : firstSome l f = none) :
    ∀ x ∈ l, f x = none := by
  induction l with
  | nil => intro x hx; cases hx
  | cons y ys ih =>
      simp only [firstSome] at h
      cases hy : f y with
      | some s => rw [hy] at h; cases h
      | none =>
          rw [hy] at h
          intro x hx
          rcases List.mem_cons.mp hx with rfl | hx
          · exact hy
          · exact ih h x hx

/-- what the framing clause asserts -/
theorem frameClause_none (i : Input) (n : Nat) (s : Bytes) (h : frameClause i n s = none) :
    (splitFrames s).2 = [] ∧ (splitFrames s).1.length = n ∧ (splitFrames s).1 ≠ [] ∧
    ∀ fr ∈ (splitFrames s).1, markerOk fr = true ∧ fr.length ≤ maxFrame i ∧
      beNat ((fr.drop 18).take 1) = expectedType i.msg ∧ frameLengths fr = none := by
  unfold frameClause at h
  generalize hsp : splitFrames s = sp at h ⊢
  obtain ⟨frames, rest⟩ := sp
  simp only at h ⊢
  by_cases h1 : (!rest.isEmpty) = true
  · simp [h1] at h
  · simp only [h1, if_false] at h
    by_cases h2 : frames.length ≠ n
    · simp [h2] at h
    · simp only [h2, if_false] at h
      by_cases h3 : frames.isEmpty = true
      · simp [h3] at h
      · simp only [h3, if_false] at h
        by_cases h4 : (!frames.all markerOk) = true
        · simp [h4] at h
        · simp only [h4, if_false] at h
          by_cases h5 : frames.any (fun fr => decide (fr.length > maxFrame i)) = true
          · rw [if_pos h5] at h
            by_cases hx : expectedType i.msg = 2 ∧
                frames.any (fun fr => decide (fr.length > maxFrame i) && !frameHasNlri fr) = true
            · rw [if_pos hx] at h; cases h
            · rw [if_neg hx] at h; cases h
          · simp only [h5, if_false] at h
            by_cases h6 : frames.any (fun fr => decide (beNat ((fr.drop 18).take 1) ≠ expectedType i.msg)) = true
            · rw [if_pos h6] at h; cases h
            · rw [if_neg h6] at h
              refine ⟨by simpa using h1, by simpa using h2, by intro hc; apply h3; rw [hc]; rfl, ?_⟩
              intro fr hfr
              have m1 : frames.all markerOk = true := by simpa using h4
              have m2 : frames.any (fun fr => decide (fr.length > maxFrame i)) = false := by simpa using h5
              have m3 : frames.any (fun fr => decide (beNat ((fr.drop 18).take 1) ≠ expectedType i.msg)) = false := by
                simpa using h6
              refine ⟨List.all_eq_true.mp m1 fr hfr, ?_, ?_, firstSome_none_iff frames frameLengths h fr hfr⟩
              · have := List.any_eq_false.mp m2 fr hfr
                simp at this; omega
              · have := List.any_eq_false.mp m3 fr hfr
                simpa using this

end Rbgp.Enc
