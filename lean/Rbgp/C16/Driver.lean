import Rbgp.Accept.Codec
import Rbgp.Accept.Spec
import Rbgp.C16.Stats
namespace Rbgp.C16
open Rbgp Rbgp.Term Rbgp.Accept Rbgp.Accept.Codec

def verdictStr : Spec.Verdict → String
  | .ok => "ok"
  | .fail i c => s!"fail step={i} clause={c}"

/-- mode `model`: case ↦ observation of the model;
    mode `oracle`: case TAB observation ↦ verdict of the C16 reference checker
    (an ill-formed case must have been refused by the harness);
    mode `stats`: case TAB observation ↦ `key=1` tokens: the boundary values and branches the case
    reaches (evidence only, see Rbgp.C16.Stats). -/
def handler (mode : String) (line : String) : String :=
  match mode with
  | "model" =>
      match (parse line).bind caseOf? with
      | some c => if wfCase c then toStr (obsT (run c)) else "(bad-case)"
      | none => "(bad-case)"
  | "oracle" =>
      match line.splitOn "\t" with
      | [c, o] =>
          match (parse c).bind caseOf? with
          | some cs =>
              if !wfCase cs then (if o == "(bad-case)" then "ok" else "fail step=0 clause=ill-formed-case-not-refused") else
              match (parse o).bind obsOf? with
              | some ob => verdictStr (Spec.check cs ob)
              | none => "fail step=0 clause=unparsable-observation"
          | none => if o == "(bad-case)" then "ok" else "fail step=0 clause=ill-formed-case-not-refused"
      | _ => "(bad-line)"
  | "stats" =>
      match line.splitOn "\t" with
      | [c, o] =>
          match (parse c).bind caseOf? with
          | some cs =>
              if !wfCase cs then "kind.ill-formed=1" else
              match (parse o).bind obsOf? with
              | some ob => Stats.render (Stats.stats cs ob)
              | none => "kind.unparsable-observation=1"
          | none => "kind.ill-formed=1"
      | _ => "(bad-line)"
  | _ => "(bad-mode)"

end Rbgp.C16
