import Rbgp.Accept.Model
/-
  Rbgp.C16.Stats — evidence only: which boundary values / branches of the anchored functions a case
  reaches.  For one (case, real observation) pair the driver prints space-separated `key=1` tokens;
  `./check` sums them into `oracle_clause_counts`, and every key listed in CONFIG `expect_judged`
  that stays at 0 in a run is reported as a coverage gap.  Nothing here is used by model, spec or proofs.
-/
namespace Rbgp.C16.Stats
open Rbgp.Accept

def key (b : Bool) (k : String) : List String := if b then [k] else []

def dedup (l : List String) : List String :=
  l.foldl (fun acc k => if acc.contains k then acc else acc ++ [k]) []

/-! ## capability pairs -/

def grCapsOf (v : List Cap) : List (Nat × Nat × List (Family × Nat)) :=
  v.filterMap fun c => match c with | .gr f t l => some (f, t, l) | _ => none
def llgrCapsOf (v : List Cap) : List (List (Family × Nat × Nat)) :=
  v.filterMap fun c => match c with | .llgr l => some l | _ => none
def enhTuples (v : List Cap) : List (Family × Nat) :=
  v.flatMap fun c => match c with | .enh l => l | _ => []
def as4Of (v : List Cap) : List Nat := v.filterMap fun c => match c with | .as4 n => some n | _ => none
def hasDup (l : List Nat) : Bool := (l.zipIdx.any fun (x, i) => (l.take i).contains x)

def asClass (n : Nat) : String :=
  if n = 0 then "0" else if n = 23456 then "trans" else if n = 65535 then "65535" else if n = 65536 then "65536"
  else if n < 65536 then "2oct" else if n = 4294967295 then "max" else "4oct"

def negSide (tag : String) (l r : List Cap) : List String :=
  let common := commonFams l r
  let aps := addPathTuples l
  key (aps.any fun t => t.2 > 3) "neg.ap.mode-gt3"
  ++ key ((aps.any fun t => !(mpFams l).contains t.1)) "neg.ap.fam-not-mp"
  ++ key (hasDup (aps.map (·.1))) "neg.ap.fam-twice"
  ++ key (hasDup (mpFams l)) "neg.mp.twice"
  ++ key ((enhTuples l).any fun t => t.2 != AFI_IP6) "neg.enh.nexthop-afi-not-ip6"
  ++ key ((enhTuples l).any fun t => famAfi t.1 != AFI_IP) "neg.enh.fam-not-ipv4-afi"
  ++ key ((enhTuples l).any fun t => !(mpFams l).contains t.1) "neg.enh.fam-not-mp"
  ++ key (common.any fun f => enhAdv f l && !enhAdv f r) s!"neg.enh.one-side-only"
  ++ key (common.any fun f => enhAdv f l && enhAdv f r) "neg.enh.both"
  ++ key (common.any fun f => f != IPV4 && enhAdv f l && enhAdv f r && !(enhAdv IPV4 l && enhAdv IPV4 r)) "neg.enh.other-fam-not-ipv4"
  ++ key ((grCapsOf l).length ≥ 2) "neg.gr.two-caps"
  ++ key ((grCapsOf l).any fun g => g.2.1 = 0) "neg.gr.time-0"
  ++ key ((grCapsOf l).any fun g => g.2.1 = 4095) "neg.gr.time-4095"
  ++ key ((grCapsOf l).any fun g => g.2.2.isEmpty) "neg.gr.no-families"
  ++ key ((llgrCapsOf l).length ≥ 2) "neg.llgr.two-caps"
  ++ key ((llgrCapsOf l).any fun c => hasDup (c.map (·.1))) "neg.llgr.fam-twice"
  ++ key ((llgrCapsOf l).any fun c => c.any fun e => e.2.2 = 0) "neg.llgr.time-0"
  ++ key ((llgrCapsOf l).any fun c => c.any fun e => e.2.2 = 16777215) "neg.llgr.time-max"
  ++ (as4Of l).map (fun n => s!"neg.as4.{asClass n}")
  ++ key (hasAs4 l && !hasAs4 r) "neg.as4.one-side-only"
  ++ key (hasExtMsg l && !hasExtMsg r) "neg.extmsg.one-side-only"
  ++ key (l.any fun c => match c with | .unknown _ _ => true | _ => false) "neg.unknown-cap"
  ++ key (l.isEmpty) s!"neg.no-caps.{tag}"

def statsNeg (l r : List Cap) (sm : List (Family × Nat)) : List String :=
  let common := commonFams l r
  let c := negotiate l r
  -- every pair of add-path modes (0..3) on a common family
  let modes := common.flatMap fun f =>
    let a := lastMode f (addPathTuples l); let b := lastMode f (addPathTuples r)
    if a ≤ 3 && b ≤ 3 then [s!"neg.ap.{a}{b}"] else []
  modes
  ++ negSide "l" l r ++ negSide "r" r l
  ++ key common.isEmpty "neg.no-common-family"
  ++ key (common.length ≥ 3) "neg.common-3plus"
  ++ key (c.extMsg) "neg.extmsg.both" ++ key c.as4 "neg.as4.both" ++ key c.enh "neg.enh.ipv4-via-mp"
  ++ key ((negotiateGr l r).isSome) "neg.gr.in-force"
  ++ key ((firstGr l).isSome && (firstGr r).isSome && (negotiateGr l r).isNone) "neg.gr.both-but-disjoint"
  ++ key (match negotiateGr l r with | some g => g.notif | none => false) "neg.gr.notif-both"
  ++ key (match negotiateGr l r, firstGr l, firstGr r with
          | some g, some (lf, _, _), some (rf, _, _) => !g.notif && (bit2 lf || bit2 rf) | _, _, _ => false) "neg.gr.notif-one-side"
  ++ key ((negotiateLlgr l r).isSome) "neg.llgr.in-force"
  ++ key ((firstLlgr l).isSome && (firstLlgr r).isSome && (negotiateLlgr l r).isNone) "neg.llgr.both-but-none"
  ++ key ((negotiateLlgr l r) != (negotiateLlgr r l) && (negotiateLlgr l r).isSome && (negotiateLlgr r l).isSome) "neg.llgr.times-differ"
  ++ key ((anorm sm).any fun e => c.tx e.1) "neg.sm.fam-tx"
  ++ key ((anorm sm).any fun e => !c.tx e.1 && common.contains e.1) "neg.sm.fam-common-not-tx"
  ++ key ((anorm sm).any fun e => !common.contains e.1) "neg.sm.fam-not-common"
  ++ key (sm.any fun e => e.2 = 0) "neg.sm.0" ++ key (sm.any fun e => e.2 = 1) "neg.sm.1"
  ++ key (sm.any fun e => e.2 = 255) "neg.sm.255" ++ key (sm.any fun e => e.2 = 256) "neg.sm.256"
  ++ key (hasDup (sm.map (·.1))) "neg.sm.fam-twice"

/-! ## prefix containment -/

def statsContains (n : Net) (a : Ip) : List String :=
  let len := n.bytes.length
  let v := if len = 4 then "v4" else "v6"
  let bits := 8 * len
  let m := n.mask
  let cls :=
    if len != a.bytes.length then "other-family"
    else if m = 0 then "m0" else if m = 1 then "m1" else if m = 7 then "m7" else if m = 8 then "m8" else if m = 9 then "m9"
    else if m + 9 = bits then "max-9" else if m + 8 = bits then "max-8" else if m + 7 = bits then "max-7"
    else if m + 1 = bits then "max-1" else if m = bits then "max" else if m = bits + 1 then "max+1" else if m > bits then "beyond"
    else if m % 8 = 0 then "octet" else "mid"
  let res := match n.contains a with | .ok true => "in" | .ok false => "out" | .panic => "panic"
  -- the two addresses differ exactly in the last covered bit / the first uncovered bit
  let diffs := (List.range bits).filter fun i =>
    ((n.bytes.getD (i / 8) 0) / 2 ^ (7 - i % 8)) % 2 != ((a.bytes.getD (i / 8) 0) / 2 ^ (7 - i % 8)) % 2
  [s!"ct.{v}.{cls}", s!"ct.{v}.{res}"]
  ++ key (len = a.bytes.length && m ≥ 1 && diffs = [m - 1]) "ct.differs-in-last-covered-bit"
  ++ key (len = a.bytes.length && diffs = [m]) "ct.differs-in-first-uncovered-bit"
  ++ key (len = a.bytes.length && diffs.isEmpty) "ct.same-address"

/-! ## histories -/

def holdClass (h : Nat) : String :=
  if h = 0 then "0" else if h = 1 then "1" else if h = 2 then "2" else if h = 3 then "3" else if h = 180 then "180"
  else if h = 65535 then "65535" else if h = 65536 then "65536" else if h > 65536 then "above" else "other"

def clusterClass : Option Nat → String
  | none => "none" | some 0 => "0" | some 4294967295 => "max" | some _ => "other"

def famsKeys (pre : String) (v6 : Bool) (fams : List (Family × Nat)) : List String :=
  let fm := anorm fams
  let ip4 := fm.filter fun e => famAfi e.1 = AFI_IP
  let fam := if v6 then "v6peer" else "v4peer"
  key fm.isEmpty s!"{pre}.fams.none.{fam}"
  ++ key (!fm.isEmpty && ip4.isEmpty) s!"{pre}.fams.no-ipv4-afi.{fam}"
  ++ key (ip4.any fun e => e.1 != IPV4_SRPOLICY) s!"{pre}.fams.ipv4-afi.{fam}"
  ++ key (fm.any fun e => e.1 = IPV4_SRPOLICY) s!"{pre}.fams.srpolicy.{fam}"
  ++ key (!ip4.isEmpty && ip4.all fun e => e.1 = IPV4_SRPOLICY) s!"{pre}.fams.srpolicy-only-ipv4-afi.{fam}"
  ++ key (fm.any fun e => e.2 > 0) s!"{pre}.fams.addpath"
  ++ key (!fm.isEmpty && fm.all fun e => e.2 = 0) s!"{pre}.fams.no-addpath"
  ++ key (hasDup (fams.map (·.1))) s!"{pre}.fams.fam-twice"

def grKeys (pre : String) : Option GrCfg → List String
  | none => [s!"{pre}.gr.none"]
  | some g => [s!"{pre}.gr.some", if g.nbit then s!"{pre}.gr.nbit" else s!"{pre}.gr.no-nbit"]
      ++ key (g.time = 0) s!"{pre}.gr.time-0" ++ key (g.time = 4095) s!"{pre}.gr.time-4095"
      ++ key g.fams.isEmpty s!"{pre}.gr.no-families"

def llgrKeys (pre : String) : Option LlgrCfg → List String
  | none => [s!"{pre}.llgr.none"]
  | some l => [s!"{pre}.llgr.some"] ++ key (l.fams.any fun e => e.2 = 0) s!"{pre}.llgr.time-0"
      ++ key (l.fams.any fun e => e.2 = 16777215) s!"{pre}.llgr.time-max"
      ++ key l.fams.isEmpty s!"{pre}.llgr.no-families" ++ key (hasDup (l.fams.map (·.1))) s!"{pre}.llgr.fam-twice"

def confedClass (asn : Nat) : Option (Nat × List Nat) → String
  | none => "none"
  | some (_, []) => "no-members"
  | some (_, ms) => if ms.contains asn then "members-with-local-as" else "members-without-local-as"

def expClass (gl : GlobalCfg) (own exp : Nat) : String :=
  if exp = 0 then "0" else if exp = own then "own-as"
  else match gl.confed with
    | some (id, ms) => if ms.contains exp then "member-as" else if exp = id then "confed-id" else s!"other.{asClass exp}"
    | none => s!"other.{asClass exp}"

def groupKeys (g : Group) : List String :=
  [s!"h.group.asn.{asClass g.asn}", s!"h.group.local-as.{if g.localAsn = 0 then "0" else asClass g.localAsn}",
   s!"h.group.hold.{match g.hold with | none => "none" | some h => holdClass h}",
   s!"h.group.cluster.{clusterClass g.cluster}",
   s!"h.group.nets.{if g.nets.isEmpty then "0" else if g.nets.length = 1 then "1" else "many"}"]
  ++ key g.passive "h.group.passive" ++ key g.rs "h.group.rs" ++ key g.rrClient "h.group.rr"
  ++ famsKeys "h.group" false g.fams ++ grKeys "h.group" g.gr ++ llgrKeys "h.group" g.llgr
  ++ key (hasDup (g.nets.filter Net.wf |>.map fun n => n.bytes.foldl (fun a b => a * 256 + b) (n.mask * 1000 + n.bytes.length))) "h.net.same-prefix-twice"
  ++ g.nets.flatMap fun n =>
      let bits := 8 * n.bytes.length
      let v := if n.bytes.length = 4 then "v4" else "v6"
      [s!"h.net.{v}.{if n.mask = 0 then "m0" else if n.mask = bits then "max" else if n.mask + 1 = bits then "max-1" else if n.mask = bits + 1 then "max+1" else if n.mask > bits then (if n.mask = 255 then "m255" else "beyond") else if n.mask % 8 = 0 then "octet" else "mid"}"]

def peerKeysN (gl : GlobalCfg) (groups : List Group) (pc : PeerCase) : List String :=
  let p := pc.params
  let v6 := p.addr.isV6
  let g := pc.group.bind (findGroup groups)
  let own := if p.localAsn != 0 then p.localAsn else gl.asn
  [s!"h.peer.{if v6 then "v6" else "v4"}", s!"h.peer.hold.{holdClass p.hold}",
   s!"h.peer.expected.{expClass gl own p.expected}",
   s!"h.peer.local-as.{if p.localAsn = 0 then "0" else if p.localAsn = gl.asn then "global-as" else asClass p.localAsn}",
   s!"h.peer.cluster.{clusterClass p.cluster}",
   s!"h.peer.group.{match pc.group, g with | none, _ => "none" | some _, none => "missing" | some _, some _ => "found"}",
   s!"h.peer.policy.{match p.pol with | none => "none" | some (_, []) => "no-names" | some (_, ns) => if polOk p.pol then (if ns.length > 1 then "several" else "one") else "unknown-name"}"]
  ++ key p.adminDown "h.peer.admin-down" ++ key p.passive "h.peer.passive" ++ key p.rs "h.peer.rs" ++ key p.rrClient "h.peer.rr"
  ++ key (p.rrClient && p.expected != own) "h.peer.rr-but-not-own-as" ++ key (p.rs && p.expected = own) "h.peer.rs-and-own-as"
  ++ famsKeys "h.peer" v6 p.fams ++ grKeys "h.peer" p.gr ++ llgrKeys "h.peer" p.llgr
  ++ key (p.sm.any fun e => e.2 = 255) "h.peer.sm.255" ++ key (p.sm.any fun e => e.2 = 0) "h.peer.sm.0"
  ++ key (p.sm.any fun e => !(p.fams.any fun f => f.1 = e.1)) "h.peer.sm.fam-not-configured"
  ++ key (p.pl.any fun e => e.2 = 0) "h.peer.pl.0" ++ key (p.pl.any fun e => e.2 = 4294967295) "h.peer.pl.max"
  ++ key (!p.pl.isEmpty) "h.peer.pl.some"
  -- apply_peer_group: each fallback taken / not taken
  ++ (match g with
      | none => []
      | some g =>
        [ if p.expected = 0 then (if g.asn != 0 then "h.inherit.expected.taken" else "h.inherit.expected.both-0") else "h.inherit.expected.own",
          if p.localAsn = 0 then (if g.localAsn != 0 then "h.inherit.local-as.taken" else "h.inherit.local-as.both-0") else "h.inherit.local-as.own",
          if p.hold = DEFAULT_HOLD_TIME then (match g.hold with | some h => s!"h.inherit.hold.taken.{holdClass h}" | none => "h.inherit.hold.group-none") else "h.inherit.hold.own",
          if p.fams.isEmpty then (if g.fams.isEmpty then "h.inherit.fams.both-none" else "h.inherit.fams.taken") else "h.inherit.fams.own",
          if p.gr.isNone then (if g.gr.isSome then "h.inherit.gr.taken" else "h.inherit.gr.both-none") else "h.inherit.gr.own",
          if p.llgr.isNone then (if g.llgr.isSome then "h.inherit.llgr.taken" else "h.inherit.llgr.both-none") else "h.inherit.llgr.own",
          if !p.passive && g.passive then "h.inherit.passive.taken" else "h.inherit.passive.not",
          if !p.rs && g.rs then "h.inherit.rs.taken" else "h.inherit.rs.not",
          if !p.rrClient && g.rrClient then s!"h.inherit.rr.taken.cluster-{clusterClass g.cluster}" else "h.inherit.rr.not" ]
        ++ key (p.fams.isEmpty && !p.sm.isEmpty) "h.inherit.fams.own-sm-dropped"
        ++ key (!p.rrClient && g.rrClient && p.cluster.isSome) "h.inherit.rr.own-cluster-replaced")

/-- an API neighbour: the request as given, then (when it is taken) the configuration it stands for -/
def peerKeys (gl : GlobalCfg) (groups : List Group) (pc : PeerCase) : List String :=
  let p := pc.params
  (if pc.api then
     [s!"h.api-peer.hold.{holdClass p.hold}",
      s!"h.api-peer.{match apiPre pc with | some _ => "taken" | none => "refused"}"]
     ++ key (p.expected = 0 && pc.group.isNone) "h.api-peer.no-as-no-group"
     ++ key (p.expected = 0 && pc.group.isSome) "h.api-peer.no-as-but-group"
     ++ key (p.sm.any fun e => e.2 = 255) "h.api-peer.sm.255" ++ key (p.sm.any fun e => e.2 = 256) "h.api-peer.sm.256"
     ++ key (p.sm.any fun e => e.2 = 0) "h.api-peer.sm.0" ++ key (p.sm.any fun e => e.2 > 256) "h.api-peer.sm.above"
   else ["h.cfg-peer"])
  ++ (match apiPre pc with | some n => peerKeysN gl groups n | none => [])

def roleName : PeerRole → String
  | .ebgp => "ebgp" | .ibgp => "ibgp" | .rrClient => "rr-client" | .rsClient => "rs-client" | .confed => "confed"

def roleDir : Role → String | .active => "A" | .passive => "P"

/-- what the end of the session task finds: its neighbour (by address) and whether another connection remains -/
def discTail (st : St) (op : Op) : List String :=
  let s := match op with | .disc sid | .discx sid _ _ => st.live.find? (fun (s : Sess) => s.sid = sid) | _ => none
  let p := s.bind fun s => plookup s.addr st.peers
  match s, p with
  | some s, some p =>
      let c := (st.ctx s.ctx).set s.role none
      let last := c.slotA.isNone && c.slotP.isNone
      let own := p.ctx = s.ctx
      (if p.cfg.dyn then [if last then "h.disc.dynamic.last-connection" else "h.disc.dynamic.other-connection-remains"]
       else [if last then "h.disc.static.last-connection" else "h.disc.static.other-connection-remains"])
      ++ key (!own) "h.disc.neighbour-re-created-meanwhile"
  | some _, none => ["h.disc.neighbour-already-gone"]
  | none, _ => []

/-- buckets of one step, from the model state before it, the operation and the REAL result -/
def stepKeys (gl : GlobalCfg) (st : St) (op : Op) (res : Res) : List String :=
  match op, res with
  | .connect a r, .accept _ info cfg _ =>
      let kind := if cfg.dyn then "dynamic" else "static"
      [s!"h.accept.{kind}.{roleName info.role}", s!"h.accept.{roleDir r}", s!"h.accept.{if a.isV6 then "v6" else "v4"}"]
      ++ key ((plookup a st.peers).isSome && cfg.dyn) "h.accept.dynamic.second-connection"
      ++ key ((plookup a st.peers).isSome && !cfg.dyn && (match plookup a st.peers with | some p => (st.ctx p.ctx).slotA.isSome || (st.ctx p.ctx).slotP.isSome | none => false)) "h.accept.static.second-connection"
      ++ key (info.cluster.isSome) s!"h.accept.cluster.{if cfg.cluster.isSome then "configured" else "router-id"}"
      ++ key (info.confedId != 0) "h.accept.with-confederation"
      ++ key (cfg.localAsn != gl.asn) (if (match gl.confed with | some (id, _) => decide (cfg.localAsn = id) | none => false) then "h.accept.local-as.confed-id" else "h.accept.local-as.override")
      ++ key (cfg.localAsn ≥ 65536) "h.accept.local-as.4oct" ++ key (cfg.expected ≥ 65536) "h.accept.expected.4oct"
      ++ key (cfg.expected = 0) "h.accept.expected.any"
      ++ key (cfg.caps.any fun c => match c with | .enh _ => true | _ => false) "h.accept.advertises-enh"
      ++ key (cfg.caps.any fun c => match c with | .addPath _ => true | _ => false) "h.accept.advertises-addpath"
      ++ key (cfg.caps.any fun c => match c with | .gr _ _ _ => true | _ => false) "h.accept.advertises-gr"
      ++ key (cfg.caps.any fun c => match c with | .llgr _ => true | _ => false) "h.accept.advertises-llgr"
      ++ key (!cfg.pl.isEmpty) "h.accept.prefix-limits" ++ key (cfg.pol.isSome) "h.accept.policy"
      ++ [s!"h.accept.hold.{holdClass cfg.hold}"]
  | .connect _ _, .acceptAmb _ _ _ => ["h.accept.ambiguous-groups"]
  | .connect a r, .reject _ =>
      (match plookup a st.peers with
       | some p => if p.adminDown then [s!"h.reject.admin-down.{roleDir r}"] else [s!"h.reject.same-direction.{roleDir r}"]
                   ++ key (p.cfg.dyn) "h.reject.same-direction.dynamic"
       | none => [s!"h.reject.unknown.{if a.isV6 then "v6" else "v4"}"] ++ key (!st.groups.all fun g => g.nets.isEmpty) "h.reject.unknown.outside-all-prefixes")
  | _, .discOpen _ _ _ _ reply =>
      let s := match op with | .disc sid | .discx sid _ _ => st.live.find? (fun (s : Sess) => s.sid = sid) | _ => none
      let p := s.bind fun s => plookup s.addr st.peers
      [match reply with | none => "h.disc.open-only" | some true => "h.disc.established" | some false => "h.disc.bad-peer-as"]
      ++ key (reply = some true && (match s with | some s => s.expected = 0 | none => false)) "h.disc.established.any-as"
      ++ key (reply = some true && (match op with | .discx _ a _ => a ≥ 65536 | _ => false)) "h.disc.established.4oct-as"
      ++ key (reply = some true && (match s with | some s => s.addr.isV6 | none => false)) "h.disc.established.v6"
      ++ key (reply = some true && (match p with | some p => p.cfg.dyn | none => false)) "h.disc.established.dynamic"
      ++ key (reply = some true && (match s with | some s => s.caps.any (fun c => match c with | .gr _ _ l => !l.isEmpty | _ => false) | none => false)) "h.disc.established.gr-negotiated"
      ++ key (reply = some true && (match s with | some s => s.caps.any (fun c => match c with | .llgr l => !l.isEmpty | _ => false) | none => false)) "h.disc.established.llgr-advertised"
      ++ key (match op with | .discx _ _ h => h = 0 | _ => false) "h.disc.remote-hold-0"
      ++ key (match op with | .discx _ _ h => h = 3 | _ => false) "h.disc.remote-hold-3"
      ++ key (match op with | .discx _ _ h => h = 65535 | _ => false) "h.disc.remote-hold-65535"
      ++ discTail st op
  | _, .discNotif c s => [s!"h.disc.notification-{c}-{s}"] ++ discTail st op
  | _, .noSession => ["h.disc.no-such-session"]
  | op, .api found =>
      let (name, a) := match op with
        | .enable a => ("enable", a) | .disable a => ("disable", a) | .delete a => ("delete", a)
        | .shutdown a => ("shutdown", a) | .reset a => ("reset", a) | _ => ("?", ⟨[]⟩)
      let p := plookup a st.peers
      [s!"h.api.{name}.{if found then "found" else "not-found"}"]
      ++ (match p with
          | some p =>
              let c := st.ctx p.ctx
              let n := (if c.slotA.isSome then 1 else 0) + (if c.slotP.isSome then 1 else 0)
              [s!"h.api.{name}.connections-{n}", s!"h.api.{name}.{if p.cfg.dyn then "dynamic" else "static"}",
               s!"h.api.{name}.{if p.adminDown then "was-down" else "was-up"}"]
          | none => [])
  | _, .aborted => []
  | _, _ => ["h.step.other"]

def walk (gl : GlobalCfg) (st : St) : List Op → List StepObs → List String
  | op :: ops, o :: os =>
      stepKeys gl st op o.res ++
      (match step st op with
       | .ok (st', _, false) => walk gl st' ops os
       | _ => [])
  | _, _ => []

def statsHist (gl : GlobalCfg) (groups : List Group) (peers : List PeerCase) (ops : List Op) (h : HistObs) : List String :=
  let pre := peers.map apiPre
  let (st, added) := setupPeers (initSt gl (groups.map loadGroup)) (pre.filterMap id)
  [s!"h.global.as.{asClass gl.asn}", s!"h.global.confed.{confedClass gl.asn gl.confed}",
   s!"h.groups.{groups.length}", s!"h.peers.{if peers.length ≥ 3 then "3plus" else toString peers.length}"]
  ++ groups.flatMap groupKeys
  ++ peers.flatMap (peerKeys gl groups)
  ++ key (added.contains false) "h.setup.neighbour-refused"
  ++ key (hasDup (peers.map fun pc => pc.params.addr.bytes.foldl (fun a b => a * 256 + b) pc.params.addr.bytes.length)) "h.setup.address-twice"
  ++ key (h.netsAdded.any fun l => l.contains false) "h.setup.prefix-refused"
  ++ walk gl st ops h.steps

def stats : Case → Obs → List String
  | .neg l r sm, _ => "kind.neg" :: statsNeg l r sm
  | .contains n a, _ => "kind.contains" :: statsContains n a
  | .hist g gs ps ops, .hist h => "kind.hist" :: statsHist g gs ps ops h
  | .hist _ _ _ _, _ => ["kind.hist", "h.not-a-history-observation"]

def render (ks : List String) : String := " ".intercalate ((dedup ks).map fun k => k ++ "=1")

end Rbgp.C16.Stats
